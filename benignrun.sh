#!/bin/bash
# benignrun.sh [<area>-<k>...] : run the contract suite against the behaviour-preserving changes produced by
# sub-agents (stored as /verif/benignwave/<area>-<k>/patch.diff), each applied to a scratch worktree of /repo's
# HEAD. Any VIOLATION here is a false alarm of the machinery. Development helper. GOVC=<binary> overrides the engine.
export GOFLAGS=-mod=mod GOPROXY=off GOSUMDB=off GOTOOLCHAIN=local
GOVC=${GOVC:-/verif/bin/govc}
slot=${SLOT:-0}
tgt=/tmp/wt_benignrun_$slot
[ -d $tgt ] || git -C /repo worktree add -q --detach $tgt HEAD
git -C $tgt checkout -q -- . ; git -C $tgt clean -fdq; git -C $tgt checkout -q --detach $(git -C /repo rev-parse HEAD)
names="$@"; [ -z "$names" ] && names=$(ls /verif/benignwave | grep -- '-[0-9]*$')
for n in $names; do
  dst=/verif/benignwave/$n
  [ -f $dst/patch.diff ] || continue
  if ! git -C $tgt apply $dst/patch.diff; then echo "$n: PATCH DOES NOT APPLY"; continue; fi
  tests="skipped"
  [ -z "$NOTESTS" ] && tests=$(cd $tgt && go build ./... 2>&1 | tail -2; go test -vet=off -count=1 ./... 2>&1 | grep -v "no test files" | grep -vc "^ok")
  funcs=$(grep '^+++ b/' $dst/patch.diff | sed 's#^+++ b/##' | xargs -n1 dirname | sort -u | sed 's#^#parsley/#; s#$#.#' | paste -sd, -)
  rm -rf /verif/work_benign_$slot
  $GOVC check --func "$funcs" --repo $tgt --work /verif/work_benign_$slot --known /verif/known_findings.json --props C01,C02,C03,C04,C06,C07,C08,C09,C10,C11,C12,C13,C14,C15 --replays /tmp/benign_replays_$slot > $dst/check_output.txt 2>&1
  echo "exit=$?" >> $dst/check_output.txt
  git -C $tgt checkout -q -- . ; git -C $tgt clean -fdq
  rm -rf /verif/work_benign_$slot /tmp/benign_replays_$slot
  echo "$n: tests_not_ok=$tests $(grep -c '^VIOLATION' $dst/check_output.txt) violations; $(grep -E '^govc:' $dst/check_output.txt | cut -c1-110)"
  grep -E "FAILED|ENGINE|STALE" $dst/check_output.txt | grep -v "RightTrim\$1/frame/call:SetReaderPos#1" | cut -c1-260 | head -4
done
git -C /repo worktree remove --force $tgt
