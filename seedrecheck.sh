#!/bin/bash
# seedrecheck.sh <slot> <seed-dir-name>... : re-run the contract suite against stored seeded changes
# (/verif/seeded/<name>/patch.diff), each applied to a scratch worktree of /repo's HEAD (never to /repo),
# restricted to the functions of the packages the patch touches (modular verification: a body change can
# only affect obligations of functions in those packages; a changed type breaks the load instead).
# Development helper, not a registered check. Rewrites seeded/<name>/check_output.txt.
export GOFLAGS=-mod=mod GOPROXY=off GOSUMDB=off GOTOOLCHAIN=local
slot=$1; shift
tgt=/tmp/wt_recheck_$slot
[ -d $tgt ] || git -C /repo worktree add -q --detach $tgt HEAD
git -C $tgt checkout -q -- . ; git -C $tgt checkout -q --detach $(git -C /repo rev-parse HEAD)
for n in "$@"; do
  dst=/verif/seeded/$n
  [ -f $dst/patch.diff ] || continue
  funcs=$(grep '^+++ b/' $dst/patch.diff | sed 's#^+++ b/##' | xargs -n1 dirname | sort -u | sed 's#^#parsley/#; s#$#.#' | paste -sd, -)
  if git -C $tgt apply $dst/patch.diff; then
    rm -rf /verif/work_seed_r$slot
    /verif/bin/govc check --func "$funcs" --repo $tgt --work /verif/work_seed_r$slot --known /verif/known_findings.json --props C01,C02,C03,C04,C06,C07,C08,C09,C10,C11,C12,C13,C14,C15 --replays /tmp/seed_replays_$slot --timeout ${SEED_TIMEOUT:-15000} > $dst/check_output.txt 2>&1
    echo "exit=$?" >> $dst/check_output.txt
    git -C $tgt checkout -q -- . ; git -C $tgt clean -fdq
    rm -rf /verif/work_seed_r$slot /tmp/seed_replays_$slot
  else
    echo "PATCH DOES NOT APPLY to $tgt" > $dst/check_output.txt
  fi
  echo "$n: $(grep -o '^VIOLATION property=C[0-9]*' $dst/check_output.txt | sort | uniq -c | tr '\n' ' ') $(grep -E '^govc:|NOT APPLY' $dst/check_output.txt | cut -c1-120)"
done
git -C /repo worktree remove --force $tgt
