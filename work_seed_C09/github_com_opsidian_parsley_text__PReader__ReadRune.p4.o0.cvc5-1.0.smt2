(set-logic ALL)
