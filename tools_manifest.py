#!/usr/bin/env python3
# Regenerates MANIFEST.json from the table below (single source of truth for claimed checks).
import json
props=[json.loads(l) for l in open('/verif/properties.jsonl')]
ids=[p['id'] for p in props]
claimed = {
 "C15": dict(
   category="proof",
   text="Every exported operation of IntSet/IntMap that is under contract (NewIntSet, Len, Insert, insertValue, Union, NewIntMap, clone, Get, Keys, Inc) is proved, for all inputs, lengths, capacities and aliasing, to (a) keep the strictly-sorted representation invariant, (b) return exactly the set/map the mathematical model gives (membership / domain+value postconditions over the whole view), (c) write only memory allocated by the call (frame obligation on every store, append, copy and map update). (c) for every operation is what makes 'no earlier value changes' hold for every history of calls. Filter and Each are higher-order and not yet under contract.",
   design_ref="DESIGN.md section 4 (C15), section 9 (implementation status)",
   note="Trusted: go/ssa as the semantics of Go, the govc VC generator, the SMT solvers, the assumed contract of sort.SearchInts, mathematical integers with explicit overflow obligations. IntMap.Filter, IntMap.Each, IntSet.Each are not under contract yet (closure-iteration schema pending)."),
 "C09": dict(
   category="proof",
   text="Every text.Reader primitive (ReadRune, MatchString, MatchWord, ReadRegexp, ReadRegexpSubmatch, Readf, Remaining, IsEOF, SkipWhitespaces, Pos) and the File accessors are proved against byte-level postconditions for all file contents, all base offsets >= 1 and all positions inside the file: on mismatch the original position is returned, on match the new position is old + matched length and <= end of file; every index and slice expression is proved in bounds (safety obligations), every + and - is proved not to overflow. For regexp and UTF-8 primitives what is matched is delegated to assumed contracts of regexp/utf8; positions, bounds and 'value is the matched span' are proved.",
   design_ref="DESIGN.md section 4 (C09), section 9",
   note="Trusted: assumed contracts of utf8.DecodeRune, bytes.HasPrefix, regexp (MustCompile/Match/FindIndex/FindSubmatch), fmt.Errorf; file invariant wfFile (offset >= 1, len == len(data) <= 2^48) as precondition, established by NewFile (proved) and SetOffset(o>=1)."),
 "C11": dict(
   category="proof",
   text="FileSet.AddFile/NewFileSet are proved to maintain the representation invariant (file i owns [offset[i], offset[i]+Len(i)], next file starts right after, first offset 1); FileSet.Position is proved to return unknown exactly for 0 and positions >= the end, and otherwise to delegate to the unique owning file with a local offset in [0, Len]; lemma `injective` proves distinct (file, offset) pairs have distinct in-range global positions. File.setLines is proved to build exactly the table of line starts (0 and successors of LF, strictly increasing, none skipped) and File.Position to return the line whose start is the greatest start <= pos and column = pos - start + 1, unknown above len.",
   design_ref="DESIGN.md section 4 (C11), section 9",
   note="Trusted: sort.Search (binary-search postcondition valid for any predicate), bytes.Replace (returns a fresh copy; CRLF normalisation itself is not specified), File implementations' Len() being pure, stable and <= 2^48. 'Line = 1 + number of LF before pos' follows from the structural line-table invariant by counting; that step is a named meta-argument. Position.String/fmt rendering is not under contract. Positions are required >= 0."),
 "C08": dict(
   category="proof",
   text="Each of the eleven literal parsers (Bool, Char, Float, Integer, Nil, Op, Regexp, Rune, String, TimeDuration, Word) is proved, for every file content, offset and position, to be total: every index, slice, type assertion and explicit panic in the parser, in unquoteString and in the reader primitives it calls is proved unreachable or in bounds; it returns exactly one of a node or an error; an error is positioned in [pos, end of input]; a node starts at pos and ends inside the input; Integer/Float/TimeDuration store exactly conv(bytes[pos:ReaderPos]) where conv is the uninterpreted strconv/time conversion. Reader.Readf's protocol (n == 0 ==> nil value, len(value) <= n <= len(input)) is proved of unquoteString (refinement obligation at the call in String).",
   design_ref="DESIGN.md section 4 (C08), section 9",
   note="Trusted: assumed contracts of strconv.ParseInt/ParseFloat/UnquoteChar, time.ParseDuration, utf8.DecodeRuneInString, regexp; axioms that the six constant regular expressions compile and do not match the empty input; the reader is a *text.Reader (Parser contract precondition). Not decided: that the lexeme is the longest literal of the documented syntax (regexp semantics), that escapes denote the right code points (strconv)."),
}
NA = {
 "C05": "differential agreement with a reference evaluator on a client grammar: depends on the shape of trees built by curtailed left recursion (C01's global theorem) plus a model of client interpreters; no contract on a function of /repo states it",
 "C16": "differential statement against encoding/json (and strconv/regexp semantics) for all documents; contracts reach only the pieces (claimed under C08/C10/C13)",
 "C17": "asymptotic bound on call counts over grammar families is not a pre/postcondition of any function; proving a ghost cost bound is the FHC complexity theorem itself",
}
checks=[]
for i in ids:
    if i in claimed:
        c=claimed[i]
        checks.append({
          "property_id": i,
          "quick_cmd": f"./check {i} --tier quick",
          "thorough_cmd": f"./check {i} --tier thorough",
          "evidence_file": f"/verif/evidence/{i}.json",
          "replay_cmd_template": "./check replay {path}",
          "engine": "govc",
          "level_claimed": {"category": c["category"], "text": c["text"], "design_ref": c["design_ref"]},
          "level_note": c["note"],
          "technique": "contract-based deductive verification: weakest-precondition style VCs generated per path from go/ssa of the real code against //@ contracts, discharged by z3/cvc5",
        })
na=[]
for i in ids:
    if i in claimed: continue
    na.append({"property_id": i, "reason": NA.get(i, "not yet decided by a discharged contract in this round (engine support or contracts pending); see DESIGN.md section 9")})
m={"version":1,
 "setup_cmd":"cd /verif/govc && GOFLAGS=-mod=mod GOPROXY=off GOSUMDB=off GOTOOLCHAIN=local go build -o /verif/bin/govc . ",
 "hooks":{"guard":"verif","enable":"-tags verif (comment-only contract files zz_contracts_verif.go, read by govc; no executable code is added)",
   "baseline_off_cmd":"cd /repo && go build ./... && go test -vet=off -count=1 ./...",
   "source_commits":[],"add_only":True},
 "engines":[{"name":"govc","path":"/verif/govc","serves_properties":sorted(claimed),"kind_free_text":"deductive verifier for Go written for this task: go/ssa symbolic execution per path, contracts in //@ comments type-checked by go/types, SMT-LIB obligations for z3 5.1/4.8 and cvc5"}],
 "checks":checks,
 "notes":"Contracts live in /repo/<pkg>/zz_contracts_verif.go behind build tag verif. known_findings.json lists recorded findings and fixed defects.",
 "not_applicable":na}
import subprocess
m["hooks"]["source_commits"]=subprocess.check_output(["git","-C","/repo","log","--format=%h %s","581fbcd..HEAD"]).decode().strip().split("\n")
json.dump(m,open('/verif/MANIFEST.json','w'),indent=1)
