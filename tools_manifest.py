#!/usr/bin/env python3
# Regenerates MANIFEST.json from the table below (single source of truth for claimed checks).
import json
props=[json.loads(l) for l in open('/verif/properties.jsonl')]
ids=[p['id'] for p in props]
claimed = {
 "C15": dict(
   category="proof",
   text="Every exported operation of IntSet/IntMap that is under contract (NewIntSet, Len, Insert, insertValue, Union, NewIntMap, clone, Get, Keys, Inc) is proved, for all inputs, lengths, capacities and aliasing, to (a) keep the strictly-sorted representation invariant, (b) return exactly the set/map the mathematical model gives (membership / domain+value postconditions over the whole view), (c) write only memory allocated by the call (frame obligation on every store, append, copy and map update). (c) for every operation is what makes 'no earlier value changes' hold for every history of calls. Filter and Each are higher-order and not yet under contract.",
   design_ref="DESIGN.md section 4 (C15), section 9 (implementation status)",
   note="Trusted: go/ssa as the semantics of Go, the govc VC generator, the SMT solvers, the assumed contract of sort.SearchInts, mathematical integers with explicit overflow obligations. IntMap.Filter, IntMap.Each, IntSet.Each are not under contract yet (closure-iteration schema pending)."),
 "C09": dict(
   category="proof",
   text="Every text.Reader primitive (ReadRune, MatchString, MatchWord, ReadRegexp, ReadRegexpSubmatch, Readf, Remaining, IsEOF, SkipWhitespaces, Pos) and the File accessors are proved against byte-level postconditions for all file contents, all base offsets >= 1 and all positions inside the file: on mismatch the original position is returned, on match the new position is old + matched length and <= end of file; every index and slice expression is proved in bounds (safety obligations), every + and - is proved not to overflow. For regexp and UTF-8 primitives what is matched is delegated to assumed contracts of regexp/utf8; positions, bounds and 'value is the matched span' are proved.",
   design_ref="DESIGN.md section 4 (C09), section 9",
   note="Trusted: assumed contracts of utf8.DecodeRune, bytes.HasPrefix, regexp (MustCompile/Match/FindIndex/FindSubmatch), fmt.Errorf; file invariant wfFile (offset >= 1, len == len(data) <= 2^48) as precondition, established by NewFile (proved) and SetOffset(o>=1)."),
 "C11": dict(
   category="proof",
   text="FileSet.AddFile/NewFileSet are proved to maintain the representation invariant (file i owns [offset[i], offset[i]+Len(i)], next file starts right after, first offset 1); FileSet.Position is proved to return unknown exactly for 0 and positions >= the end, and otherwise to delegate to the unique owning file with a local offset in [0, Len]; lemma `injective` proves distinct (file, offset) pairs have distinct in-range global positions. File.setLines is proved to build exactly the table of line starts (0 and successors of LF, strictly increasing, none skipped) and File.Position to return the line whose start is the greatest start <= pos and column = pos - start + 1, unknown above len.",
   design_ref="DESIGN.md section 4 (C11), section 9",
   note="Trusted: sort.Search (binary-search postcondition valid for any predicate), bytes.Replace (returns a fresh copy; CRLF normalisation itself is not specified), File implementations' Len() being pure, stable and <= 2^48. 'Line = 1 + number of LF before pos' follows from the structural line-table invariant by counting; that step is a named meta-argument. Position.String/fmt rendering is not under contract. Positions are required >= 0."),
 "C08": dict(
   category="proof",
   text="Each of the eleven literal parsers (Bool, Char, Float, Integer, Nil, Op, Regexp, Rune, String, TimeDuration, Word) is proved, for every file content, offset and position, to be total: every index, slice, type assertion and explicit panic in the parser, in unquoteString and in the reader primitives it calls is proved unreachable or in bounds; it returns exactly one of a node or an error; an error is positioned in [pos, end of input]; a node starts at pos and ends inside the input; Integer/Float/TimeDuration store exactly conv(bytes[pos:ReaderPos]) where conv is the uninterpreted strconv/time conversion. Reader.Readf's protocol (n == 0 ==> nil value, len(value) <= n <= len(input)) is proved of unquoteString (refinement obligation at the call in String).",
   design_ref="DESIGN.md section 4 (C08), section 9",
   note="Trusted: assumed contracts of strconv.ParseInt/ParseFloat/UnquoteChar, time.ParseDuration, utf8.DecodeRuneInString, regexp; axioms that the six constant regular expressions compile and do not match the empty input; the reader is a *text.Reader (Parser contract precondition). Not decided: that the lexeme is the longest literal of the documented syntax (regexp semantics), that escapes denote the right code points (strconv)."),
}

PARTIAL = "contract-based deductive verification (partial: the clauses listed are proved for all inputs; the rest of the property's statement is not decided by this check)"
claimed.update({
 "C04": dict(
   category="other",
   text="Deductive, per function. Proved for all inputs: (1) parsley.Parse returns exactly one of a non-nil node or a non-nil error ([one-of]) for EVERY root parser that satisfies the Parser contract PC; (2) clause PC1 of PC (\"no node and no error only if some Memoize curtailed\") is proved of every parser the library builds: the 11 literal parsers, Empty, End, ReturnError/Name, Optional, Any, Choice, Memoize, LeftTrim, RightTrim, the recursive sequence (Seq/SeqOf/SeqTry/SeqFirstOrAll/Many/SepBy via (*Sequence).Parse) -- and at the root no Memoize is active, so the curtailed case cannot reach Parse's caller (ghost GhostCurtailed reset at Parse entry); SuppressError and Single are excluded by name in their contracts; (3) End matches exactly at end of input and returns the EOF node there ([eof]); Sentence(p) is the sequence [p, End] with length check n == 2 bound to Select(0) ([root]); (4) Evaluate never calls EvaluateNode without a node, EvaluateNode never panics (the default branch's node.Pos() is reached only with a non-nil node), (*NonTerminalNode).Value calls exactly its own interpreter with exactly that node and panics only without an interpreter (the property's hypothesis is the precondition). NOT decided: 'succeeds precisely when some parse consumes the entire input' (needs C01's completeness) and that the returned tree spans the whole input (needs the sequence's result-structure equations).",
   design_ref="DESIGN.md sections 3.1, 4 (C04), 9",
   note="Trusted/assumed: interface contracts on foreign Parser, Node, Interpreter and Reader implementations (PC is what a user-written parser must satisfy); errors.New/fmt.Errorf/errors.As contracts; node positions are >= 0; a Sequence's lookup/length functions are pure and satisfy the shape precondition of Seq; go/ssa semantics; solvers."),
 "C07": dict(
   category="other",
   text="Deductive frame (footprint) verification: every store, append, copy, map update and call in every function under contract (all of data, ast, parser, text, text/terminal, combinator, parsley's parse/evaluate path: ~220 functions) carries a frame obligation -- the written location is either memory allocated by the current call or named in the function's `assigns` clause, and callee footprints must fit the caller's. The Parser contract's footprint contains NO node field and NO list array element, so a parser that conforms to it cannot modify any node or list that existed before the call; list arrays carry an ownership discipline (ghost append permission GhostSpare, clause PC2 ListOwn, spare-frame) that proves AppendNode/NodeList.Append write only into arrays created during the current call or into spare capacity nobody else can see, Memoize stores and returns lists without spare capacity ([cache], nl[:len:len]), and the sequence result handler copies the scratch slice ([copy]). The one place where this fails is reported as KNOWN FINDING D8: text.RightTrim writes the end position into nodes its operand returned (obligation text.RightTrim$1/frame/call#8:SetReaderPos; real failing input in /verif/findings). SetReaderPos methods are proved to change only the receiver's readerPos.",
   design_ref="DESIGN.md sections 3.2, 4 (C07), 6, 9",
   note="Known finding D8 listed in known_findings.json. Assumed: interface contracts (foreign parsers/nodes keep to the PC footprint; interpreters/transformers may write node fields only during Evaluate/Transform, which happen after the parse); NewNonTerminalNode stores the children slice it is given (callers in the library pass fresh copies -- proved at the call sites under contract); Transform/StaticCheck (post-parse passes that mutate nodes by design) are outside this property's 'during the parse' scope; IntMap.Filter trusted."),
 "C14": dict(
   category="other",
   text="Deductive: data-race freedom is reduced to a footprint property and that footprint property is proved. Every function under contract is proved (frame obligations, same machinery as C07) to write only (a) memory it allocated itself, (b) state reachable from its own *Context / *Reader / receiver arguments as named in its assigns clause (ctx.err, ctx.callCount, the context's result-cache maps, the reader's regexp cache, node fields during RightTrim/Transform). No function's assigns clause names a package-level variable except combinator.Memoize (nextParserIndex, written only through sync/atomic.AddInt32 -- [frame/call#1:atomic.AddInt32]) and the package initialisers; the package-level values EmptyIntSet/EmptyIntMap, the whitespace errors, ErrNoValue are covered by global invariants proved in init and never in any assigns clause; errors.As targets are locals (fix D7). Two parses with distinct contexts, readers and inputs therefore write disjoint memory and only read the shared parser graph (closure captures are proved never assigned after construction: closure contracts have `assigns nothing` beyond PC).",
   design_ref="DESIGN.md sections 3.2, 4 (C14), 9",
   note="NOT decided by this technique: the Go memory model / actual interleavings (no concurrency semantics in the VCs) -- the step 'disjoint write footprints + read-only sharing implies race freedom and equal results' is the standard meta-argument, stated in DESIGN.md, not machine-checked. Assumed: regexp.Regexp methods are safe for concurrent use (documented by Go), foreign parsers keep to the PC footprint."),
 "C10": dict(
   category="other",
   text="Deductive. Proved for all file contents/offsets/positions: Reader.SkipWhitespaces skips exactly the maximal run of space, tab, LF, FF ([run],[allws],[maximal]) and returns the mode's verdict: none: error iff the run is non-empty, at its start; spaces: error iff the run contains a line break, at the first one; spaces-and-newlines: never; force-newline: error iff no line break, at the end of the run; every error is a whitespace error ([none],[spaces],[spaces-pos],[nl],[forcenl],[kind]). LeftTrim calls its operand exactly once right after the run with the caller's context ([once],[after-run]), returns the operand's result unchanged when the mode accepts ([accepted],[transparent]) and the mode error at the start for mode none. RightTrim calls its operand once at pos, and moves each alternative's end forward past the run that follows it, inside the input ([moved]); each SetReaderPos method calls the callback exactly once with its old end and stores the answer, changing nothing else ([once],[moved], frame). NOT decided: the exact error-priority rules of LeftTrim for the other three modes, 'inserting permitted whitespace never changes a parse' (a whole-grammar statement), Parse's preference for whitespace errors.",
   design_ref="DESIGN.md section 4 (C10), 9",
   note="Assumed: the reader is a *text.Reader; contracts of regexp/utf8; the callback protocol ast.rpcallback for foreign SetReaderPos callbacks; a well-formed foreign node implements ReaderPosSetter (axiom [settable], proved for the repository's node types by lemma settable_repo)."),
 "C03": dict(
   category="other",
   text="Deductive. Proved of combinator.Memoize's closure for all inputs: on a cache hit (an entry whose stored left-recursion counts are all <= the current ones) the wrapped parser is NOT called and the stored node, curtailing set and error are returned as they are ([hit]); otherwise, unless curtailed, the wrapped parser is called exactly once with the caller's context and position and the counter of this parser incremented ([once],[inc]), its node/cp/error are returned unchanged apart from cutting the list's spare capacity, and exactly that triple is stored under (parser index, pos) with the context filtered to the curtailing parsers ([miss],[value]); ResultCache.Get/Save are proved against the map model ([reuse]). Context.SetError keeps the maximum position. In a left-recursion-free grammar nothing is curtailed (cp stays empty -> stored context empty -> every later lookup at the same position hits): that last step is a short meta-argument over the proved clauses. Determinism: the VCs model every library function as a function of its inputs and the heap; the only non-determinism is the parser index (a fresh number per Memoize call).",
   design_ref="DESIGN.md section 4 (C03), 9",
   note="NOT decided: equality of the complete result lists and furthest-error positions of a memoized vs. un-memoized grammar as a whole-grammar statement (it follows from [hit]/[miss] by induction over the parse, not machine-checked); call-count equality across runs."),
 "C02": dict(
   category="other",
   text="Deductive. The curtailment mechanism is proved clause by clause for all inputs: Memoize returns without calling its operand when the parser's counter exceeds Remaining(pos)+1 ([curtailed]) and otherwise increments exactly that counter ([inc]); every combinator passes the caller's counters on unchanged at the same position and (the sequence) resets them only when input was consumed -- stated as the ghost 'floor' discipline: a callee at the same position receives counters pointwise >= the caller's ([floor] precondition of PC, proved at every Parser call site in Optional, Any, Choice, Memoize, LeftTrim, RightTrim, ReturnError, Single, the sequence's parse/parseNext: obligations pre@call#..:parsley.Parser.Parse/floor); every returned node ends inside [pos, end of input] ([PC3]) so a sequence element that reports consumption really moved forward; Remaining is proved against its byte-level definition (C09). The bound 'a memoized parser is active at most Remaining+2 times at a position' follows from [floor]+[inc]+[curtailed] by a counting argument that is stated in DESIGN.md but not machine-checked; termination itself is not proved (partial correctness only).",
   design_ref="DESIGN.md section 4 (C02), 9",
   note="Fixed defect D3 (sequence dropped the counters without consumption) was found as a failing [floor] obligation. Assumed: foreign parsers satisfy PC; lookup functions of sequences are pure."),
 "C13": dict(
   category="other",
   text="Deductive, covering the evaluation half of the property: (*NonTerminalNode).Value is proved to call exactly one interpreter -- its own -- with exactly (userCtx, this node) and to return that call's value and error unchanged ([own-interpreter],[result], call-log postconditions); EvaluateNode dispatches literal / non-literal / no-value correctly without panicking; interpreter.Select(i) evaluates exactly child i (index proved in bounds under its precondition) and its StaticCheck returns child i's schema. NOT decided in this round: Walk's post-order/exactly-once/early-stop, StaticCheck's bottom-up order and Transform's recursion (these need a ghost visit trace over the recursive tree structure; contracts not written), Array/Object interpreters.",
   design_ref="DESIGN.md section 4 (C13), 9",
   note="parsley.StaticCheck carries an assumed (flag trusted) contract; Walk, Transform of NonTerminalNode are not under contract."),
 "C06": dict(
   category="other",
   text="Deductive, per clause. Proved for all inputs: every error a library parser returns lies inside [pos, end of input] ([PC3e]) and is never beyond the ghost high-water mark GhostMaxFail, which is only ever raised to the position of an error that some terminal (or End, ReturnError, a whitespace check) actually produced at that position ([PC6] + the ghost_return updates: the furthest-failure bound of the property); End's error is at pos ([errpos]); ReturnError/Name replaces exactly a not-found error located at pos by the named error at pos and leaves any other error alone ([named],[kept]); Context.SetError keeps the maximum; FileSet.ErrorWithPosition renders through Position (C11). NOT decided: equality with the furthest failure when every Any/Choice is named (needs the no-loss direction through sequence/Any/Choice), the literal message format (fmt), which expectation text is reported.",
   design_ref="DESIGN.md section 4 (C06), 9",
   note="Assumed: fmt.Errorf returns non-nil; foreign parsers satisfy PC6."),
 "C01": dict(
   category="other",
   text="Deductive, soundness-side building blocks only. Proved for all inputs: the local equations of the combinators -- Empty returns the empty node at pos ([E6]); Optional returns its operand's results followed by the empty match ([E6],[E6-empty]); Memoize's reuse/miss/curtailed clauses (context-sensitive reuse exactly when stored counts <= current counts) ([reuse],[miss],[curtailed]); SeqOf/SeqTry/SeqFirstOrAll/Many/SepBy build exactly the lookup and length functions of their documentation ([E7-lookup],[E7-len],[E8-*],[E9-*]); the default result handler builds a node over a copy of exactly the matched nodes spanning first.Pos..last.ReaderPos ([copy],[span],[empty]); AppendNode/NodeList.Append keep every earlier alternative and add the new ones in order ([prefix],[perm],[alt-frame]); IntSet/IntMap operations equal their set/map models (C15); every result ends inside the input ([PC3]). NOT decided: the global theorem (every derivation is returned / completeness under left recursion, Frost-Hafiz-Callaghan) -- it is not a postcondition of any single function and was not mechanised; the sequence's enumeration equation (all combinations of element alternatives) is only proved as memory-safety + ownership + floor, not as a set equation.",
   design_ref="DESIGN.md section 4 (C01), 9",
   note="This check guards the mechanisms C01 depends on (it caught D2 and D3, which lose parses); it does not prove C01."),
})
claimed["C12"] = dict(
   category="other",
   text="Deductive, two layers. (1) The same obligations as C09/C11: every reader primitive and File/FileSet accessor is proved, for every base offset >= 1, to meet a postcondition phrased over the cursor pos - file.offset and the file's bytes only (the three seeded C12 changes each break one of these obligations). (2) Placement-invariance lemmas over those postconditions, discharged by the solver with no code involved: for two readers over the same bytes at different base offsets and two positions with the same cursor, Remaining and IsEOF agree; ReadRune, MatchString, MatchWord, ReadRegexp, ReadRegexpSubmatch and SkipWhitespaces return the same verdict and new positions (and SkipWhitespaces error positions) shifted by exactly the difference of the base offsets; Reader.Pos shifts by the same difference (lemmas shiftRemaining, shiftReadRune, shiftMatchString, shiftMatchWord, shiftReadRegexp, shiftReadRegexpSubmatch, shiftSkipWhitespaces, shiftPos). For the regexp primitives this needed their contracts to be functional: the match is reFindLen(source, bytes from the cursor), an uninterpreted function of the pattern source and the text. FileSet.Position is proved to delegate to the owning file with the local offset, so rendered line:column do not depend on the base offset. NOT decided: the lifting from primitives to whole parses (combinators only pass positions on and compare positions of the same run; Memoize's curtailment reads Remaining, which is invariant by lemma) is a parametricity meta-argument, not machine-checked; Readf depends on its callback and has no lemma.",
   design_ref="DESIGN.md section 4 (C12), 9.5",
   note="Assumed: contracts of regexp (FindIndex/FindSubmatch return what reFindLen says), utf8; the two files hold the same data slice and length (the model of 'the same file placed elsewhere').")
for k in ("C04","C07","C14","C10","C03","C02","C13","C06","C01","C12"):
    claimed[k]["technique"] = PARTIAL
NA = {
 "C05": "differential agreement with a reference evaluator on a client grammar: depends on the shape of trees built by curtailed left recursion (C01's global theorem) plus a model of client interpreters; no contract on a function of /repo states it",
 "C16": "differential statement against encoding/json (and strconv/regexp semantics) for all documents; contracts reach only the pieces (claimed under C08/C10/C13)",
 "C17": "asymptotic bound on call counts over grammar families is not a pre/postcondition of any function; proving a ghost cost bound is the FHC complexity theorem itself",
}
checks=[]
for i in ids:
    if i in claimed:
        c=claimed[i]
        checks.append({
          "property_id": i,
          "quick_cmd": f"./check {i} --tier quick",
          "thorough_cmd": f"./check {i} --tier thorough",
          "evidence_file": f"/verif/evidence/{i}.json",
          "replay_cmd_template": "./check replay {path}",
          "engine": "govc",
          "level_claimed": {"category": c["category"], "text": c["text"], "design_ref": c["design_ref"]},
          "level_note": c["note"],
          "technique": c.get("technique", "contract-based deductive verification: weakest-precondition style VCs generated per path from go/ssa of the real code against //@ contracts, discharged by z3/cvc5"),
        })
na=[]
for i in ids:
    if i in claimed: continue
    na.append({"property_id": i, "reason": NA.get(i, "not yet decided by a discharged contract in this round (engine support or contracts pending); see DESIGN.md section 9")})
m={"version":1,
 "setup_cmd":"cd /verif/govc && GOFLAGS=-mod=mod GOPROXY=off GOSUMDB=off GOTOOLCHAIN=local go build -o /verif/bin/govc . ",
 "hooks":{"guard":"verif","enable":"-tags verif (comment-only contract files zz_contracts_verif.go, read by govc; no executable code is added)",
   "baseline_off_cmd":"cd /repo && go build ./... && go test -vet=off -count=1 ./...",
   "source_commits":[],"add_only":True},
 "engines":[{"name":"govc","path":"/verif/govc","serves_properties":sorted(claimed),"kind_free_text":"deductive verifier for Go written for this task: go/ssa symbolic execution per path, contracts in //@ comments type-checked by go/types, SMT-LIB obligations for z3 5.1/4.8 and cvc5"}],
 "checks":checks,
 "notes":"Contracts live in /repo/<pkg>/zz_contracts_verif.go behind build tag verif. known_findings.json lists recorded findings and fixed defects.",
 "not_applicable":na}
import subprocess
m["hooks"]["source_commits"]=subprocess.check_output(["git","-C","/repo","log","--format=%h %s","581fbcd..HEAD"]).decode().strip().split("\n")
json.dump(m,open('/verif/MANIFEST.json','w'),indent=1)
