#!/bin/bash
# run.sh <finding-id>: replays the demonstration of a recorded known finding against /repo's working tree
# (the test file is injected with -overlay; nothing is written to /repo). Exit 1 = the finding reproduces.
export GOFLAGS=-mod=mod GOPROXY=off GOSUMDB=off GOTOOLCHAIN=local
cd "$(dirname "$0")"
case "$1" in
  D8) src=$PWD/D8_righttrim_shared_node_test.go; pkg=combinator; run=TestFindingD8 ;;
  *) echo "usage: run.sh D8"; exit 2 ;;
esac
ov=$(mktemp /tmp/ov.XXXXXX.json)
printf '{"Replace":{"%s":"%s"}}' "/repo/$pkg/zz_finding_test.go" "$src" > $ov
(cd /repo/$pkg && go test -overlay $ov -vet=off -count=1 -timeout 60s -run "$run" .)
rc=$?
rm -f $ov
exit $rc
