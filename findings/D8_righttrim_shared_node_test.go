// Demonstration of known finding D8 (property C07): text.RightTrim moves the end position of the node its
// operand returned -- in place. When the operand is memoized the node is shared with the result cache, so the
// node a parser returned earlier reads differently later, and a second consumer of the cached result receives
// an end position that the parser it asked never produced.
//
// Run (from /verif):  ./findings/run.sh D8      (injects this file into package combinator via -overlay)
package combinator_test

import (
	"testing"

	"github.com/opsidian/parsley/combinator"
	"github.com/opsidian/parsley/data"
	"github.com/opsidian/parsley/parser"
	"github.com/opsidian/parsley/parsley"
	"github.com/opsidian/parsley/text"
	"github.com/opsidian/parsley/text/terminal"
)

func TestFindingD8(t *testing.T) {
	f := text.NewFile("in", []byte("a   "))
	fs := parsley.NewFileSet(f)
	r := text.NewReader(f)
	ctx := parsley.NewContext(fs, r)

	a := combinator.Memoize(terminal.Op("a"))
	var first parsley.Node
	var endAtReturn parsley.Pos
	probe := parser.Func(func(ctx *parsley.Context, lrc data.IntMap, pos parsley.Pos) (parsley.Node, data.IntSet, parsley.Error) {
		n, cp, err := a.Parse(ctx, lrc, pos)
		if n != nil && first == nil {
			first, endAtReturn = n, n.ReaderPos()
		}
		return n, cp, err
	})
	// first consumer: the memoized result, right-trimmed; second consumer: the memoized result as it is
	p := combinator.Any(text.RightTrim(probe, text.WsSpaces), a)
	res, _, _ := p.Parse(ctx, data.EmptyIntMap, f.Pos(0))
	if first == nil || res == nil {
		t.Fatal("setup: no result")
	}
	if first.ReaderPos() != endAtReturn {
		t.Errorf("C07 violated: the node returned by the memoized parser ended at %d when it was returned and ends at %d now", endAtReturn, first.ReaderPos())
	}
	again, _, _ := a.Parse(ctx, data.EmptyIntMap, f.Pos(0))
	if again.ReaderPos() != endAtReturn {
		t.Errorf("C07 violated: asking the memoized parser again gives end %d, the first answer was %d", again.ReaderPos(), endAtReturn)
	}
}
