// BOUNDED stand-in (not a proof): IntMap.Filter, IntMap.Each and IntSet.Each are higher-order (they run a callback
// per element); their contracts in zz_contracts_verif.go are assumed (Filter: `flag trusted`) or absent. This test
// enumerates EVERY map with keys in {0..4} and values in {1,2} (3^5 = 243 maps) and EVERY set of {0..5}
// (64 sets) -- 15552 pairs -- and compares Filter with the mathematical model, checks that neither operand
// changes (persistence), that the result shares no storage with the operand, and that Each visits exactly the
// elements (ascending for sets). Bound: 5 keys, 2 values, universe of 6 set elements; stated in the evidence.
package data_test

import (
	"fmt"
	"os"
	"sort"
	"testing"

	"github.com/opsidian/parsley/data"
)

func TestBoundedFilterEach(t *testing.T) {
	cases := 0
	for mcode := 0; mcode < 243; mcode++ {
		m := map[int]int{}
		c := mcode
		for k := 0; k < 5; k++ {
			if v := c % 3; v != 0 {
				m[k] = v
			}
			c /= 3
		}
		for scode := 0; scode < 64; scode++ {
			var elems []int
			for x := 0; x < 6; x++ {
				if scode&(1<<x) != 0 {
					elems = append(elems, x)
				}
			}
			cases++
			orig := map[int]int{}
			for k, v := range m {
				orig[k] = v
			}
			im := data.NewIntMap(orig)
			set := data.NewIntSet(elems...)
			res := im.Filter(set)
			// model
			want := map[int]int{}
			for _, x := range elems {
				if v, ok := m[x]; ok {
					want[x] = v
				}
			}
			got := map[int]int{}
			res.Each(func(k, v int) { got[k] = v })
			if fmt.Sprint(got) != fmt.Sprint(want) || len(res.Keys()) != len(want) {
				t.Fatalf("Filter(%v, %v) = %v, want %v", m, elems, got, want)
			}
			for _, k := range res.Keys() {
				if res.Get(k) != want[k] {
					t.Fatalf("Filter(%v, %v): Get(%d) = %d", m, elems, k, res.Get(k))
				}
			}
			// operands unchanged
			after := map[int]int{}
			im.Each(func(k, v int) { after[k] = v })
			if fmt.Sprint(after) != fmt.Sprint(m) {
				t.Fatalf("Filter changed its receiver: %v -> %v", m, after)
			}
			var visited []int
			set.Each(func(v int) { visited = append(visited, v) })
			if fmt.Sprint(visited) != fmt.Sprint(elems) && !(len(visited) == 0 && len(elems) == 0) {
				t.Fatalf("IntSet.Each visited %v, set is %v", visited, elems)
			}
			if !sort.IntsAreSorted(visited) {
				t.Fatalf("IntSet.Each not ascending: %v", visited)
			}
			// the result is a new value: changing it (Inc) leaves the operand alone
			_ = res.Inc(0)
			again := map[int]int{}
			im.Each(func(k, v int) { again[k] = v })
			if fmt.Sprint(again) != fmt.Sprint(m) {
				t.Fatalf("result shares storage with the receiver")
			}
		}
	}
	if p := os.Getenv("GOVC_BOUNDED_OUT"); p != "" {
		os.WriteFile(p, []byte(fmt.Sprintf(`{"function":"data.(IntMap).Filter, data.(IntMap).Each, data.(IntSet).Each","kind":"bounded exhaustive test (NOT a proof)","bound":"maps over keys 0..4 with values 1..2 (243) x subsets of 0..5 (64)","cases":%d,"result":"all agree with the set/map model; operands unchanged"}`, cases)), 0o644)
	}
}
