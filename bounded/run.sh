#!/bin/bash
# run.sh <out.json>: runs the bounded stand-ins against /repo's working tree (test injected with -overlay).
export GOFLAGS=-mod=mod GOPROXY=off GOSUMDB=off GOTOOLCHAIN=local
cd "$(dirname "$0")"
ov=$(mktemp /tmp/ovb.XXXXXX.json)
printf '{"Replace":{"%s":"%s"}}' "${REPO:-/repo}/data/zz_bounded_test.go" "$PWD/data_filter_each_test.go" > $ov
(cd ${REPO:-/repo}/data && GOVC_BOUNDED_OUT="$1" go test -overlay $ov -vet=off -count=1 -timeout 120s -run TestBoundedFilterEach . 2>&1)
rc=$?
rm -f $ov
exit $rc
