#!/usr/bin/env python3
"""mutgen.py <slot> <nslots> <count> [seed] [skip] : generic mutation run (development helper, not a registered check).

Generates single-token mutants (relational/boolean/arithmetic operator replacement, negated conditions, off-by-one
constants, swapped boolean literals) of the non-test sources of the verified packages, keeps those that compile and
that the repository's own test suite does NOT kill, and runs the contract suite (packages touched) on each survivor in
a scratch worktree of /repo's HEAD. Results: /verif/mutation/results_<slot>.jsonl (one line per survivor: file, line,
mutation, violations reported). Survivors the checks do not report are either equivalent mutants or misses: they are
listed for manual triage in DESIGN.md.
"""
import json, os, random, re, subprocess, sys, hashlib

slot, nslots, count = int(sys.argv[1]), int(sys.argv[2]), int(sys.argv[3])
seed = int(sys.argv[4]) if len(sys.argv) > 4 else 1
skip = int(sys.argv[5]) if len(sys.argv) > 5 else 0  # candidates of this slot already tried by an earlier run
ENV = dict(os.environ, GOFLAGS='-mod=mod', GOPROXY='off', GOSUMDB='off', GOTOOLCHAIN='local')
PKGS = ['data', 'parsley', 'text', 'ast', 'parser', 'combinator', 'ast/interpreter', 'text/terminal']
WT = f'/tmp/wt_mut_{slot}'
OUT = '/verif/mutation'
os.makedirs(OUT, exist_ok=True)

def sh(cmd, cwd=None, timeout=900):
    p = subprocess.run(cmd, shell=True, cwd=cwd, env=ENV, stdout=subprocess.PIPE, stderr=subprocess.STDOUT, timeout=timeout)
    return p.returncode, p.stdout.decode('utf8', 'replace')

RULES = [
    (r'(?<![<>=!:+\-*/&|])<(?![<=\-])', '<=', 'lt->le'),
    (r'(?<![<>=!:])<=(?!=)', '<', 'le->lt'),
    (r'(?<![<>=!\-])>(?![>=])', '>=', 'gt->ge'),
    (r'(?<![<>=!])>=(?!=)', '>', 'ge->gt'),
    (r'(?<![=!<>:])==(?!=)', '!=', 'eq->ne'),
    (r'!=(?!=)', '==', 'ne->eq'),
    (r'&&', '||', 'and->or'),
    (r'\|\|', '&&', 'or->and'),
    (r'(?<=[\w\)\]]) \+ 1\b', ' - 1', 'plus1->minus1'),
    (r'(?<=[\w\)\]]) - 1\b', ' + 1', 'minus1->plus1'),
    (r'(?<=[\w\)\]])\+1\b', '-1', 'plus1->minus1'),
    (r'(?<=[\w\)\]])-1\b', '+1', 'minus1->plus1'),
    (r'\btrue\b', 'false', 'true->false'),
    (r'\bfalse\b', 'true', 'false->true'),
    (r'(?<![\w.])0(?![\w.])', '1', 'zero->one'),
    (r'\bif ([^{;]+) \{', None, 'negate-if'),
    (r'\breturn nil, ', None, 'noop'),
]

def candidates():
    cands = []
    for pk in PKGS:
        d = os.path.join('/repo', pk)
        for fn in sorted(os.listdir(d)):
            if not fn.endswith('.go') or fn.endswith('_test.go') or fn.startswith('zz_') or 'fakes' in fn:
                continue
            rel = os.path.join(pk, fn)
            lines = open(os.path.join('/repo', rel)).read().split('\n')
            infunc = False
            for ln, line in enumerate(lines):
                st = line.strip()
                if line.startswith('func '):
                    infunc = True
                if not infunc or st.startswith('//') or st.startswith('import') or st.startswith('"') or 'panic(' in st:
                    continue
                code = re.sub(r'"(\\.|[^"\\])*"', lambda m: '"' + ' ' * (len(m.group(0)) - 2) + '"', line)  # blank string literals
                code = re.sub(r'`[^`]*`', lambda m: '`' + ' ' * (len(m.group(0)) - 2) + '`', code)
                code = code.split('//')[0]
                for pat, rep, name in RULES:
                    if name == 'noop':
                        continue
                    for m in re.finditer(pat, code):
                        if name == 'negate-if':
                            cond = m.group(1)
                            if ':=' in cond or cond.strip().startswith('!'):
                                continue
                            new = line[:m.start(1)] + '!(' + line[m.start(1):m.end(1)] + ')' + line[m.end(1):]
                        else:
                            new = line[:m.start()] + rep + line[m.end():]
                        cands.append((rel, ln, name, line, new))
    return cands

def main():
    cands = candidates()
    rnd = random.Random(seed)
    rnd.shuffle(cands)
    mine = [c for i, c in enumerate(cands) if i % nslots == slot][skip:]
    print(f'{len(cands)} candidate mutants, slot {slot} takes up to {count} survivors', flush=True)
    if not os.path.isdir(WT):
        sh(f'git -C /repo worktree add -q --detach {WT} HEAD')
    head = sh('git -C /repo rev-parse HEAD')[1].strip()
    sh(f'git -C {WT} checkout -q -- . ; git -C {WT} clean -fdq; git -C {WT} checkout -q --detach {head}')
    res = open(f'{OUT}/results_{slot}.jsonl', 'a')
    survivors = tried = 0
    for rel, ln, name, old, new in mine:
        if survivors >= count:
            break
        tried += 1
        p = os.path.join(WT, rel)
        lines = open(p).read().split('\n')
        if lines[ln] != old:
            continue
        lines[ln] = new
        open(p, 'w').write('\n'.join(lines))
        try:
            rc, out = sh('go build ./... 2>&1 | tail -3', cwd=WT)
            if 'error' in out or out.strip():
                continue
            rc, out = sh('go vet ./' + os.path.dirname(rel) + ' 2>&1 | tail -3', cwd=WT)
            try:
                rc, out = sh('go test -vet=off -count=1 -timeout 120s ./... 2>&1 | grep -v "no test files" | grep -vc "^ok"', cwd=WT, timeout=400)
            except subprocess.TimeoutExpired:
                continue
            if out.strip() != '0':
                continue  # killed by the repository's own tests
            survivors += 1
            funcs = 'parsley/' + os.path.dirname(rel) + '.'
            work = f'/verif/work_mut_{slot}'
            sh(f'rm -rf {work}')
            rc, out = sh(f'/verif/bin/govc check --func "{funcs}" --repo {WT} --work {work} --known /verif/known_findings.json --props C01,C02,C03,C04,C06,C07,C08,C09,C10,C11,C12,C13,C14,C15 --replays /tmp/mut_replays_{slot} --timeout 15000', timeout=3000)
            sh(f'rm -rf {work} /tmp/mut_replays_{slot}')
            viol = sorted(set(re.findall(r'^VIOLATION property=(C\d+)', out, re.M)))
            obls = [o.replace('github.com/opsidian/parsley/', '') for o in re.findall(r'^VIOLATION property=C\d+ replay=\S+ obligation=(\S+)', out, re.M)]
            first = obls[0] if obls else ''
            rec = dict(file=rel, line=ln + 1, mutation=name, old=old.strip(), new=new.strip(), violations=viol, first=first)
            res.write(json.dumps(rec) + '\n'); res.flush()
            print(f'survivor {survivors} (tried {tried}): {rel}:{ln+1} {name}: {"caught " + ",".join(viol) if viol else "NOT REPORTED"}  {first[:80]}', flush=True)
        finally:
            sh(f'git -C {WT} checkout -q -- . ; git -C {WT} clean -fdq')
    sh(f'git -C /repo worktree remove --force {WT}')

main()
