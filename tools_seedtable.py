#!/usr/bin/env python3
# Regenerates the seeded-change table of DESIGN.md (between the seedtable markers) from /verif/seeded/*/.
import json, os, re, glob
rows=[]
for d in sorted(glob.glob('/verif/seeded/*/')):
    n=os.path.basename(d.rstrip('/'))
    try: meta=json.load(open(d+'meta.json'))
    except Exception: meta={}
    out=open(d+'check_output.txt').read() if os.path.exists(d+'check_output.txt') else ''
    conf=open(d+'confirmation.txt').read() if os.path.exists(d+'confirmation.txt') else ''
    confirmed = ('demo on changed code: FAIL' in conf or 'demo on changed code: --- FAIL' in conf) and 'demo on clean code: ok' in conf and 'suite with change: packages ok = 10' in conf
    viol=sorted(set(re.findall(r'^VIOLATION property=(C\d+)', out, re.M)))
    obls=re.findall(r'^VIOLATION property=C\d+ replay=\S+ obligation=(\S+)', out, re.M)
    first=''
    for o in obls:
        o=o.replace('github.com/opsidian/parsley/','')
        if 'RightTrim$1/frame/call#8' in o: continue
        first=o; break
    own=n.split('-')[0]
    caught = 'yes' if own in viol else ('by other checks' if viol else 'NO')
    rows.append((n, meta.get('function','')[:60], 'yes' if confirmed else 'no', caught, ', '.join(viol) or '-', first or '-'))
tab='| seed | function changed | confirmed | caught by its own property\'s check | checks that report a violation | first failing obligation |\n|---|---|---|---|---|---|\n'
for r in rows:
    tab+='| '+' | '.join(x.replace('|','\\|') for x in r)+' |\n'
n=len(rows); c=sum(1 for r in rows if r[3]=='yes'); o=sum(1 for r in rows if r[3]=='by other checks')
tab+=f'\n{n} seeded changes: {c} caught by the check of the property they were aimed at, {o} more by checks of other properties, {n-c-o} missed.\n'
p='/verif/DESIGN.md'
s=open(p).read()
a=s.index('<!-- seedtable:begin -->')+len('<!-- seedtable:begin -->\n'); b=s.index('<!-- seedtable:end -->')
s=s[:a]+tab+s[b:]
open(p,'w').write(s)
print(tab[-200:])
