#!/bin/bash
# Must-fail corpus. Every line of expect.tsv names a patch (a deliberate property-breaking change, or the revert of
# a repaired defect), the obligation that has to fail on the patched tree, and the function filter to run.
# Each patch is applied to a scratch copy of /repo's working tree under /tmp (removed afterwards); /repo is never touched.
# exit 0: every mutant was rejected by the expected obligation; exit 1 otherwise.
export GOFLAGS=-mod=mod GOPROXY=off GOSUMDB=off GOTOOLCHAIN=local
cd /verif/selftest
fail=0; n=0
scratch=$(mktemp -d /tmp/govc_selftest.XXXXXX)
trap 'rm -rf "$scratch"' EXIT
while IFS=$'\t' read -r patch obl filter; do
  case "$patch" in ''|'#'*) continue;; esac
  n=$((n+1))
  rm -rf "$scratch/repo" "$scratch/work"; mkdir -p "$scratch/repo"
  rsync -a --exclude .git /repo/ "$scratch/repo/"
  if ! (cd "$scratch/repo" && patch -p1 -s < "/verif/$patch" >/dev/null 2>&1); then
    echo "SELFTEST $patch: patch does not apply (stale mutant)"; fail=1; continue
  fi
  if ! (cd "$scratch/repo" && go build ./... >/dev/null 2>&1); then
    echo "SELFTEST $patch: mutant does not compile"; fail=1; continue
  fi
  out=$(/verif/bin/govc check --repo "$scratch/repo" --work "$scratch/work" --func "$filter" --timeout 10000 -v 2>&1)
  if echo "$out" | grep -F "$obl" | grep -qE "FAILED|ENGINE"; then
    echo "selftest ok   $patch -> $obl FAILED as required"
  else
    echo "SELFTEST $patch: expected obligation $obl did not fail"; echo "$out" | grep -E "FAILED|ENGINE|^govc" | head -5; fail=1
  fi
done < expect.tsv
# must-pass corpus: behaviour-preserving refactorings (new locals, renamed variables and parameters, reordered
# disjuncts, a return folded into an expression) applied together must not raise any alarm
rm -rf "$scratch/repo" "$scratch/work"; mkdir -p "$scratch/repo"
rsync -a --exclude .git /repo/ "$scratch/repo/"
nb=0
for pf in /verif/selftest/benign/*.patch; do
  if (cd "$scratch/repo" && patch -p1 -s < "$pf" >/dev/null 2>&1); then nb=$((nb+1)); else echo "SELFTEST benign $pf does not apply (stale)"; fail=1; fi
done
if (cd "$scratch/repo" && go build ./... >/dev/null 2>&1); then
  out=$(/verif/bin/govc check --repo "$scratch/repo" --work "$scratch/work" --known /verif/known_findings.json --props C01,C02,C03,C04,C06,C07,C08,C09,C10,C11,C12,C13,C14,C15 --replays "$scratch/replays" 2>&1)
  if echo "$out" | grep -q "^VIOLATION"; then
    echo "SELFTEST benign refactorings raised an alarm:"; echo "$out" | grep "^VIOLATION" | cut -c1-200 | head -5; fail=1
  else
    echo "selftest ok   $nb benign refactorings applied together: no alarm"
  fi
else
  echo "SELFTEST benign corpus does not compile"; fail=1
fi
echo "selftest: $n mutants $([ $fail = 0 ] && echo all rejected, benign corpus quiet || echo -- PROBLEMS, see above)"
exit $fail
