package main

import (
	"fmt"
	"go/ast"
	"go/types"
	"os"
	"path/filepath"
	"sort"
	"strings"

	"golang.org/x/tools/go/packages"
	"golang.org/x/tools/go/ssa"
	"golang.org/x/tools/go/ssa/ssautil"
)

const modPath = "github.com/opsidian/parsley"

// verifiedPkgs are the packages of /repo that may hold contract files.
var verifiedPkgs = []string{"data", "parsley", "text", "ast", "parser", "combinator", "ast/interpreter", "text/terminal"}

type Program struct {
	Repo      string
	Pkgs      map[string]*packages.Package // by path
	SSA       *ssa.Program
	SSAPkgs   map[string]*ssa.Package
	PC        map[string]*PkgContracts // by pkg path
	Contracts map[string]*Contract     // by Target
	Pures     map[string]*PureFunc     // by pkgpath.name
	Funcs     map[string]*ssa.Function // by key
	Universe  *Universe
	relCache  map[string][]string
	relBusy   map[string]bool
	defFamCache map[string][]string
	defNested   map[string]bool
	capSorts    []Sort
	cloMaps     []*types.Map
	inlCache    map[*ssa.Function]bool
	Anchors     map[string][]string // repo-relative source file -> properties anchored in it
}

func loadProgram(repo string) (*Program, error) {
	p := &Program{Repo: repo, Pkgs: map[string]*packages.Package{}, SSAPkgs: map[string]*ssa.Package{},
		PC: map[string]*PkgContracts{}, Contracts: map[string]*Contract{}, Pures: map[string]*PureFunc{}, Funcs: map[string]*ssa.Function{}}
	overlay := map[string][]byte{}
	var patterns []string
	for _, rel := range verifiedPkgs {
		dir := filepath.Join(repo, rel)
		if _, err := os.Stat(dir); err != nil {
			continue
		}
		patterns = append(patterns, "./"+rel)
		cf := filepath.Join(dir, "zz_contracts_verif.go")
		if _, err := os.Stat(cf); err != nil {
			continue
		}
		pkgPath := modPath + "/" + rel
		pc, err := parseContractFile(cf, pkgPath)
		if err != nil {
			return nil, err
		}
		pc.generate()
		overlay[pc.SynthFile] = []byte(pc.Synth)
		p.PC[pkgPath] = pc
		if os.Getenv("GOVC_DUMP_SYNTH") != "" {
			fmt.Fprintf(os.Stderr, "==== %s\n%s\n", pc.SynthFile, pc.Synth)
		}
	}
	cfg := &packages.Config{
		Mode:       packages.LoadAllSyntax,
		Dir:        repo,
		BuildFlags: []string{"-tags=verif"},
		Overlay:    overlay,
		Env:        append(os.Environ(), "GOFLAGS=-mod=mod", "GOPROXY=off", "GOSUMDB=off", "GOTOOLCHAIN=local"),
	}
	pkgs, err := packages.Load(cfg, patterns...)
	if err != nil {
		return nil, err
	}
	var errs []string
	packages.Visit(pkgs, nil, func(pk *packages.Package) {
		if strings.HasPrefix(pk.PkgPath, modPath) {
			for _, e := range pk.Errors {
				errs = append(errs, e.Error())
			}
		}
	})
	if len(errs) > 0 {
		return nil, fmt.Errorf("load errors (contract files are type-checked against the real packages):\n  %s", strings.Join(errs, "\n  "))
	}
	for _, pk := range pkgs {
		p.Pkgs[pk.PkgPath] = pk
	}
	prog, spkgs := ssautil.AllPackages(pkgs, ssa.GlobalDebug|ssa.InstantiateGenerics)
	prog.Build()
	p.SSA = prog
	for i, sp := range spkgs {
		if sp != nil {
			p.SSAPkgs[pkgs[i].PkgPath] = sp
		}
	}
	// attach clause ASTs
	for pkgPath, pc := range p.PC {
		pk := p.Pkgs[pkgPath]
		if pk == nil {
			return nil, fmt.Errorf("package %s not loaded", pkgPath)
		}
		var synth *ast.File
		for i, f := range pk.Syntax {
			if pk.CompiledGoFiles[i] == pc.SynthFile {
				synth = f
			}
		}
		if synth == nil {
			return nil, fmt.Errorf("synthetic file for %s not in package", pkgPath)
		}
		decls := map[string]*ast.FuncDecl{}
		for _, d := range synth.Decls {
			if fd, ok := d.(*ast.FuncDecl); ok {
				decls[fd.Name.Name] = fd
			}
		}
		retExpr := func(fd *ast.FuncDecl) ast.Expr {
			last := fd.Body.List[len(fd.Body.List)-1]
			return last.(*ast.ReturnStmt).Results[0]
		}
		for _, pf := range pc.Pures {
			pf.Decl = decls[pf.FnName]
			if pf.Decl == nil {
				return nil, fmt.Errorf("pure func %s not found", pf.Name)
			}
			p.Pures[pkgPath+"."+pf.Name] = pf
		}
		for _, c := range pc.Contracts {
			all := [][]*Clause{c.Lets, c.Requires, c.Ensures, c.Assigns, c.Asserts}
			for _, g := range append(append(append([]*Clause{}, c.GEntry...), c.GReturn...), c.GAt...) {
				all = append(all, []*Clause{g, g.Target})
				if g.Cond != nil {
					all = append(all, []*Clause{g.Cond})
				}
			}
			for _, lc := range c.Loops {
				all = append(all, lc.Invariants)
				if lc.Decreases != nil {
					all = append(all, []*Clause{lc.Decreases})
				}
			}
			for _, cls := range all {
				for _, cl := range cls {
					fd := decls[cl.FnName]
					if fd == nil {
						return nil, fmt.Errorf("clause %s missing", cl.FnName)
					}
					cl.Expr = retExpr(fd)
				}
			}
			if old := p.Contracts[c.Target]; old != nil {
				return nil, fmt.Errorf("%s:%d: duplicate contract for %s", c.File, c.Line, c.Target)
			}
			p.Contracts[c.Target] = c
		}
	}
	// index functions
	for fn := range ssautil.AllFunctions(prog) {
		if fn.Pkg == nil || !strings.HasPrefix(fn.Pkg.Pkg.Path(), modPath) {
			continue
		}
		if fn.Synthetic != "" && fn.Synthetic != "package initializer" {
			continue
		}
		p.Funcs[keyOfFunction(fn)] = fn
	}
	p.Universe = newUniverse(p)
	return p, nil
}

// keyOfFunction gives the canonical contract key of an SSA function:
//   pkg.Name, pkg.(T).Name, pkg.(*T).Name, and for closures <parentkey>$N.
func keyOfFunction(fn *ssa.Function) string {
	if fn.Parent() != nil {
		// name is Parent$N
		nm := fn.Name()
		i := strings.LastIndex(nm, "$")
		return keyOfFunction(fn.Parent()) + nm[i:]
	}
	pkg := ""
	if fn.Pkg != nil {
		pkg = fn.Pkg.Pkg.Path()
	} else if fn.Object() != nil && fn.Object().Pkg() != nil {
		pkg = fn.Object().Pkg().Path()
	}
	if recv := fn.Signature.Recv(); recv != nil {
		t := recv.Type()
		ptr := ""
		if pt, ok := t.(*types.Pointer); ok {
			ptr = "*"
			t = pt.Elem()
		}
		tn := t.String()
		if nt, ok := t.(*types.Named); ok {
			tn = nt.Obj().Name()
		}
		return pkg + ".(" + ptr + tn + ")." + fn.Name()
	}
	return pkg + "." + fn.Name()
}

// captureSorts: the sorts of the variables captured by some closure of the loaded packages
func (p *Program) captureSorts() []Sort {
	if p.capSorts != nil {
		return p.capSorts
	}
	seen := map[Sort]bool{}
	for _, k := range p.sortedFuncKeys() {
		fn := p.Funcs[k]
		for _, b := range fn.Blocks {
			for _, in := range b.Instrs {
				mc, ok := in.(*ssa.MakeClosure)
				if !ok {
					continue
				}
				for _, bd := range mc.Bindings {
					pt, ok := bd.Type().Underlying().(*types.Pointer)
					if !ok {
						continue
					}
					switch pt.Elem().Underlying().(type) {
					case *types.Struct, *types.Array:
						continue
					}
					s := p.Universe.sortOf(pt.Elem())
					if !seen[s] {
						seen[s] = true
						p.capSorts = append(p.capSorts, s)
					}
				}
			}
		}
	}
	sort.Slice(p.capSorts, func(i, j int) bool { return p.capSorts[i] < p.capSorts[j] })
	if p.capSorts == nil {
		p.capSorts = []Sort{}
	}
	return p.capSorts
}

// closureMapTypes: the Go map types written (MapUpdate) by some closure of the loaded packages -- the map
// families a function value may own objects of
func (p *Program) closureMapTypes() []*types.Map {
	if p.cloMaps != nil {
		return p.cloMaps
	}
	seen := map[string]bool{}
	for _, k := range p.sortedFuncKeys() {
		fn := p.Funcs[k]
		if fn.Parent() == nil {
			continue
		}
		for _, b := range fn.Blocks {
			for _, in := range b.Instrs {
				mu, ok := in.(*ssa.MapUpdate)
				if !ok {
					continue
				}
				mt, ok := mu.Map.Type().Underlying().(*types.Map)
				if !ok || seen[mt.String()] {
					continue
				}
				seen[mt.String()] = true
				p.cloMaps = append(p.cloMaps, mt)
			}
		}
	}
	if p.cloMaps == nil {
		p.cloMaps = []*types.Map{}
	}
	return p.cloMaps
}

func (p *Program) sortedFuncKeys() []string {
	var ks []string
	for k := range p.Funcs {
		ks = append(ks, k)
	}
	sort.Strings(ks)
	return ks
}

func (p *Program) infoFor(pkgPath string) *types.Info {
	if pk := p.Pkgs[pkgPath]; pk != nil {
		return pk.TypesInfo
	}
	return nil
}
