package main

import (
	"sort"
	"strings"
	"fmt"
	"go/token"
	"go/types"

	"golang.org/x/tools/go/ssa"
)

func (ex *Exec) newObject(st *State, what string) Term {
	id := st.sc.fresh("obj_"+what, SInt)
	st.sc.assert(eq(id, st.alloc))
	na := st.sc.fresh("alloc", SInt)
	st.sc.assert(eq(na, add(id, intLit(1))))
	st.alloc = na
	return id
}

func (ex *Exec) zeroInit(st *State, l Loc) {
	switch l.Kind {
	case LObj:
		si := st.u().structInfoOf(l.Type)
		st.sc.ensureSort(si.Sort)
		for i, f := range si.Fields {
			st.writeFam(st.fieldFam(si, i), []Term{l.Obj}, st.u().zero(f.Sort))
		}
	case LCell:
		f := st.fams[l.Fam]
		st.writeFam(f, []Term{l.Obj}, st.u().zero(f.Res))
	case LArr:
		at := l.Type.Underlying().(*types.Array)
		f := st.elemFam(st.u().sortOf(at.Elem()))
		st.updateFamWhere(f, func(p []Term) Term { return eq(p[0], l.Obj) }, func(p []Term) Term { return st.u().zero(f.Res) })
	}
}

func (ex *Exec) step(st *State, in ssa.Instruction) {
	switch t := in.(type) {
	case *ssa.DebugRef:
		return
	case *ssa.Alloc:
		id := ex.newObject(st, t.Comment)
		l := st.locOfPointer(id, t.Type())
		st.locs[t] = l
		st.vals[t] = id
		ex.zeroInit(st, l)
	case *ssa.FieldAddr:
		base := ex.locOf(st, t.X)
		pt := t.X.Type().Underlying().(*types.Pointer)
		si := st.u().structInfoOf(pt.Elem())
		fld := si.Fields[t.Field]
		switch base.Kind {
		case LObj:
			ex.checkNonNil(st, base.Obj, t, "field address of nil pointer")
			// a struct-typed field is itself addressed as a path inside the field family
			st.locs[t] = Loc{Kind: LField, Fam: st.fieldFam(si, t.Field).Name, Obj: base.Obj, Type: fld.Type}
		case LField, LElem, LCell:
			nl := base
			nl.Path = append(append([]PathSel(nil), base.Path...), PathSel{Struct: si.Sort, Field: fld.Name, Sort: fld.Sort, Index: t.Field})
			nl.Type = fld.Type
			if nl.Kind == LCell {
				nl.Kind = LField
			}
			st.locs[t] = nl
		default:
			ex.abort("FieldAddr on %s", base)
		}
	case *ssa.Field:
		x := ex.val(st, t.X)
		si := st.u().structInfoOf(t.X.Type())
		st.sc.ensureSort(si.Sort)
		st.vals[t] = app(si.Fields[t.Field].Sort, fmt.Sprintf("%s.%s", si.Sort, si.Fields[t.Field].Name), x)
	case *ssa.IndexAddr:
		idx := ex.val(st, t.Index)
		switch xt := t.X.Type().Underlying().(type) {
		case *types.Slice:
			s := ex.val(st, t.X)
			ex.checkBounds(st, idx, slLen(s), t, "index")
			st.assumeArrType(s, xt.Elem()) // static typing of the array behind the slice
			f := st.elemFam(st.u().sortOf(xt.Elem()))
			st.locs[t] = Loc{Kind: LElem, Fam: f.Name, Obj: slArr(s), Idx: add(slOff(s), idx), Type: xt.Elem(), Sl: &s, Rel: &idx}
		case *types.Pointer:
			at := xt.Elem().Underlying().(*types.Array)
			base := ex.locOf(st, t.X)
			ex.checkBounds(st, idx, intLit(at.Len()), t, "index")
			f := st.elemFam(st.u().sortOf(at.Elem()))
			whole := mkSlice(base.Obj, intLit(0), intLit(at.Len()), intLit(at.Len()))
			st.locs[t] = Loc{Kind: LElem, Fam: f.Name, Obj: base.Obj, Idx: idx, Type: at.Elem(), Sl: &whole, Rel: &idx}
		default:
			ex.abort("IndexAddr on %s", t.X.Type())
		}
	case *ssa.Index:
		idx := ex.val(st, t.Index)
		if isStringType(t.X.Type()) {
			s := ex.val(st, t.X)
			ex.checkBounds(st, idx, app(SInt, "gstr.len", s), t, "string index")
			v := app(SInt, "gstr.at", s, idx)
			st.vals[t] = v
			st.sc.assert(and(le(intLit(0), v), le(v, intLit(255))))
			return
		}
		ex.abort("Index on %s", t.X.Type())
	case *ssa.Lookup:
		ex.lookup(st, t)
	case *ssa.UnOp:
		ex.unop(st, t)
	case *ssa.BinOp:
		ex.binop(st, t)
	case *ssa.Store:
		l := ex.locOf(st, t.Addr)
		v := ex.val(st, t.Val)
		ex.frameStore(st, t, l)
		st.storeLoc(l, v)
	case *ssa.MapUpdate:
		mt := t.Map.Type().Underlying().(*types.Map)
		m := ex.val(st, t.Map)
		k := ex.val(st, t.Key)
		v := ex.val(st, t.Value)
		d, vf, l := st.mapFamsT(mt)
		st.check(fmt.Sprintf("safe/nilmap#%d", ex.ordinal[t]), "nilmap", neq(m, intLit(0)), "assignment to entry in nil map", nil, t.Pos())
		ex.frameCheck(st, fmt.Sprintf("frame/mapupdate#%d", ex.ordinal[t]), t.Pos(), t.Map, []frameTarget{{Fam: d.Name, Obj: m}, {Fam: vf.Name, Obj: m}, {Fam: l.Name, Obj: m}})
		was := st.readFam(st.heap, d, m, k)
		oldLen := st.readFam(st.heap, l, m)
		st.writeFam(l, []Term{m}, ite(was, oldLen, add(oldLen, intLit(1))))
		st.writeFam(d, []Term{m, k}, tTrue)
		st.writeFam(vf, []Term{m, k}, v)
	case *ssa.MakeMap:
		id := ex.newObject(st, "map")
		mt := t.Type().Underlying().(*types.Map)
		d, _, l := st.mapFamsT(mt)
		st.updateFamWhere(d, func(p []Term) Term { return eq(p[0], id) }, func(p []Term) Term { return tFalse })
		st.writeFam(l, []Term{id}, intLit(0))
		st.vals[t] = id
	case *ssa.MakeSlice:
		ln := ex.val(st, t.Len)
		cp := ex.val(st, t.Cap)
		st.check(fmt.Sprintf("safe/makeslice#%d", ex.ordinal[t]), "bounds", and(le(intLit(0), ln), le(ln, cp)), "make([]T, len, cap): 0 <= len <= cap", nil, t.Pos())
		st.sc.assert(le(cp, T(SInt, "281474976710656"))) // allocation succeeded: below the runtime's maxAlloc
		id := ex.newObject(st, "array")
		et := t.Type().Underlying().(*types.Slice).Elem()
		f := st.elemFam(st.u().sortOf(et))
		st.sc.ensureSort(f.Res)
		st.updateFamWhere(f, func(p []Term) Term { return eq(p[0], id) }, func(p []Term) Term { return st.u().zero(f.Res) })
		st.vals[t] = mkSlice(id, intLit(0), ln, cp)
	case *ssa.Slice:
		ex.sliceOp(st, t)
	case *ssa.MakeInterface:
		st.vals[t] = st.makeIface(ex.val(st, t.X), t.X.Type())
	case *ssa.ChangeInterface:
		st.vals[t] = ex.val(st, t.X)
	case *ssa.ChangeType:
		ex.copyValue(st, t, t.X)
	case *ssa.Convert:
		ex.convert(st, t)
	case *ssa.TypeAssert:
		ex.typeAssert(st, t)
	case *ssa.Extract:
		tp, ok := st.tuples[t.Tuple]
		if !ok {
			ex.abort("extract from unknown tuple %s", t.Tuple.Name())
		}
		st.vals[t] = tp[t.Index]
	case *ssa.MakeClosure:
		id := ex.newObject(st, "closure")
		fn := t.Fn.(*ssa.Function)
		st.sc.declFun("clo.fn", []Sort{SInt}, SInt)
		st.sc.assert(eq(app(SInt, "clo.fn", id), intLit(int64(st.u().funcID("func:"+keyOfFunction(fn))))))
		for i, b := range t.Bindings {
			cn := fmt.Sprintf("clo.cap%d", i)
			st.sc.declFun(cn, []Sort{SInt}, SInt)
			st.sc.assert(eq(app(SInt, cn, id), ex.val(st, b)))
		}
		{
			// closed world: the closure owns exactly the cells of its captured variables
			st.declOwns()
			ds := []string{"false"}
			fc := ex.prog.Contracts[keyOfFunction(fn)]
			if fc == nil {
				for _, b := range t.Bindings {
					ds = append(ds, fmt.Sprintf("(= o %s)", ex.val(st, b).S))
				}
			} else {
				// a closure under contract owns the captured variables (and maps) its assigns clause names: the others
				// it can only read (a write to one fails the closure's own frame obligation)
				base := &Env{st: st, cur: st.heap, old: st.heap, ghost: st.ghost, ghost0: st.ghost, allocLo: st.alloc0}
				fe := ex.closureEnv(st, fc, t.Bindings, base)
				capCell := map[string]bool{}
				for _, b := range t.Bindings {
					capCell[ex.val(st, b).S] = true
				}
				seen := map[string]bool{}
				for _, cl := range fc.Assigns {
					for _, ls := range fe.evalAssignsClause(cl) {
						if ls.Region || ls.Ghost || ls.Owner != nil || seen[ls.Obj.S] {
							continue
						}
						if (strings.HasPrefix(ls.Fam, "C.") && capCell[ls.Obj.S]) || strings.HasPrefix(ls.Fam, "MD.") {
							seen[ls.Obj.S] = true
							ds = append(ds, fmt.Sprintf("(= o %s)", ls.Obj.S))
						}
					}
				}
			}
			st.sc.emit("(assert (forall ((o Int)) (! (= (clo.owns %s o) (or %s)) :pattern ((clo.owns %s o)))))", id.S, strings.Join(ds, " "), id.S)
		}
		st.vals[t] = id
		ex.closureRequiresAtMake(st, t)
		ex.closureDefAxiom(st, t, id)
	case *ssa.Range:
		mt, ok := t.X.Type().Underlying().(*types.Map)
		if !ok {
			ex.abort("range over %s is outside the verified subset", t.X.Type())
		}
		ks, vs := st.u().sortOf(mt.Key()), st.u().sortOf(mt.Elem())
		vis := st.sc.freshFun("visited", []Sort{ks}, SBool)
		st.sc.emit("(assert (forall ((k %s)) (! (not (%s k)) :pattern ((%s k)))))", ks, vis, vis)
		d, _, _ := st.mapFamsT(mt)
		st.iters[t] = &MapIter{Map: ex.val(st, t.X), KSort: ks, VSort: vs, Visited: vis, MapType: mt, Count: intLit(0), StartDom: st.heap[d.Name]}
	case *ssa.Next:
		ex.next(st, t)
	case *ssa.Call:
		ex.call(st, t)
	default:
		ex.abort("instruction %T (%s) is outside the verified subset", in, in)
	}
}

func (ex *Exec) checkNonNil(st *State, p Term, in ssa.Instruction, what string) {
	if v, ok := in.(ssa.Value); ok {
		_ = v
	}
	// pointers to objects allocated in this function are trivially non-nil
	st.check(fmt.Sprintf("safe/nil#%d", ex.ordinal[in]), "nil", neq(p, intLit(0)), what, nil, in.Pos())
}

func (ex *Exec) checkBounds(st *State, idx, n Term, in ssa.Instruction, what string) {
	st.check(fmt.Sprintf("safe/bounds#%d", ex.ordinal[in]), "bounds", and(le(intLit(0), idx), lt(idx, n)), what+" in range", nil, in.Pos())
}

func (ex *Exec) lookup(st *State, t *ssa.Lookup) {
	idx := ex.val(st, t.Index)
	if isStringType(t.X.Type()) {
		s := ex.val(st, t.X)
		ex.checkBounds(st, idx, app(SInt, "gstr.len", s), t, "string index")
		v := app(SInt, "gstr.at", s, idx)
		st.sc.assert(and(le(intLit(0), v), le(v, intLit(255))))
		st.vals[t] = v
		return
	}
	mt := t.X.Type().Underlying().(*types.Map)
	m := ex.val(st, t.X)
	vs := st.u().sortOf(mt.Elem())
	d, vf, _ := st.mapFamsT(mt)
	st.sc.ensureSort(vs)
	present := st.readFam(st.heap, d, m, idx)
	_ = vf
	val := st.sc.fresh("lookup", vs)
	st.sc.assert(eq(val, st.mapRead(st.heap, mt, m, idx)))
	st.assumeWellFormed(val, mt.Elem())
	if t.CommaOk {
		st.tuples[t] = []Term{val, present}
	} else {
		st.vals[t] = val
	}
}

func (ex *Exec) unop(st *State, t *ssa.UnOp) {
	switch t.Op {
	case token.MUL: // load
		if g, ok := t.X.(*ssa.Global); ok && g.Name() == "init$guard" {
			st.vals[t] = tFalse // the initialiser body runs exactly once
			return
		}
		l := ex.locOf(st, t.X)
		if l.Kind == LObj || l.Kind == LCell {
			ex.checkNonNil(st, l.Obj, t, "nil pointer dereference")
		}
		raw := st.loadLoc(st.heap, l)
		if tt, isTuple := t.Type().(*types.Tuple); isTuple {
			_ = tt
			ex.abort("load of tuple")
		}
		// name the loaded value so that terms stay small
		v := st.sc.fresh("ld_"+t.Name(), raw.Sort)
		st.sc.assert(eq(v, raw))
		st.assumeWellFormed(v, t.Type())
		st.vals[t] = v
	case token.NOT:
		st.vals[t] = not(ex.val(st, t.X))
	case token.SUB:
		x := ex.val(st, t.X)
		r := app(SInt, "-", x)
		ex.arith(st, t, r, t.Type())
	case token.XOR:
		ex.abort("bitwise complement is outside the verified subset")
	default:
		ex.abort("unary operator %s is outside the verified subset", t.Op)
	}
}

// arith binds the (possibly wrapped) result of an arithmetic operation and
// emits the overflow obligation.
func (ex *Exec) arith(st *State, v ssa.Value, r Term, t types.Type) {
	in := v.(ssa.Instruction)
	lo, hi, ok := intRange(t)
	if !ok {
		st.vals[v] = r
		return
	}
	res := st.sc.fresh(v.Name(), SInt)
	st.sc.assert(eq(res, r))
	if ex.opts.Overflow && !(ex.con != nil && ex.con.Flags["arith_mathematical"]) {
		st.check(fmt.Sprintf("safe/overflow#%s.%d", opName(in), ex.ordinal[in]), "overflow", and(T(SBool, "(<= %s %s)", lo, res.S), T(SBool, "(<= %s %s)", res.S, hi)), "integer arithmetic stays in the range of "+t.String(), nil, in.Pos())
		st.vals[v] = res
	} else {
		// machine semantics: wrap
		w := st.sc.fresh(v.Name()+"w", SInt)
		st.sc.assert(eq(w, wrapInt(res, t)))
		st.vals[v] = w
	}
}

func opName(in ssa.Instruction) string {
	switch t := in.(type) {
	case *ssa.BinOp:
		switch t.Op {
		case token.ADD:
			return "add"
		case token.SUB:
			return "sub"
		case token.MUL:
			return "mul"
		case token.QUO:
			return "div"
		case token.REM:
			return "rem"
		}
		return "binop"
	case *ssa.UnOp:
		return "neg"
	case *ssa.Convert:
		return "conv"
	}
	return "op"
}

func (ex *Exec) binop(st *State, t *ssa.BinOp) {
	x, y := ex.val(st, t.X), ex.val(st, t.Y)
	xt := t.X.Type()
	switch t.Op {
	case token.EQL, token.NEQ:
		var r Term
		switch {
		case x.Sort == SSlice:
			r = eq(slArr(x), slArr(y)) // only comparison with nil is legal
		case x.Sort == SStr && y.S == "str_empty":
			r = eq(app(SInt, "gstr.len", x), intLit(0))
		case x.Sort == SStr && x.S == "str_empty":
			r = eq(app(SInt, "gstr.len", y), intLit(0))
		case x.Sort == SIface && y.Sort != SIface:
			r = eq(x, st.makeIface(y, t.Y.Type()))
		case y.Sort == SIface && x.Sort != SIface:
			r = eq(st.makeIface(x, xt), y)
		default:
			r = eq(x, y)
		}
		if x.Sort == SIface && y.Sort == SIface && !isNilConst(t.X) && !isNilConst(t.Y) {
			// comparing two interface values panics at run time when both hold the same uncomparable dynamic type
			// (a slice such as ast.NodeList, a map, a function, a struct with such a field)
			st.declComparable()
			st.check(fmt.Sprintf("safe/ifacecmp#%d", ex.ordinal[t]), "panic", implies(eq(ifType(x), ifType(y)), app(SBool, "type.comparable", ifType(x))), "comparison of interface values: the common dynamic type is comparable (otherwise == panics)", nil, t.Pos())
		}
		if t.Op == token.NEQ {
			r = not(r)
		}
		st.vals[t] = r
	case token.LSS, token.LEQ, token.GTR, token.GEQ:
		if x.Sort != SInt {
			ex.abort("ordered comparison on %s is outside the verified subset", xt)
		}
		op := map[token.Token]string{token.LSS: "<", token.LEQ: "<=", token.GTR: ">", token.GEQ: ">="}[t.Op]
		st.vals[t] = app(SBool, op, x, y)
	case token.ADD:
		if x.Sort == SStr {
			st.vals[t] = app(SStr, "gstr.cat", x, y)
			return
		}
		if x.Sort != SInt {
			ex.abort("+ on %s is outside the verified subset", xt)
		}
		ex.arith(st, t, add(x, y), t.Type())
	case token.SUB:
		if x.Sort != SInt {
			ex.abort("- on %s is outside the verified subset", xt)
		}
		ex.arith(st, t, sub(x, y), t.Type())
	case token.MUL:
		if x.Sort != SInt {
			ex.abort("* on %s is outside the verified subset", xt)
		}
		ex.arith(st, t, app(SInt, "*", x, y), t.Type())
	case token.QUO, token.REM:
		if x.Sort != SInt {
			ex.abort("/ on %s is outside the verified subset", xt)
		}
		st.check(fmt.Sprintf("safe/div#%d", ex.ordinal[t]), "div", neq(y, intLit(0)), "division by zero", nil, t.Pos())
		if t.Op == token.QUO {
			ex.arith(st, t, goDiv(x, y), t.Type())
		} else {
			r := st.sc.fresh(t.Name(), SInt)
			st.sc.assert(eq(r, goRem(x, y)))
			st.vals[t] = r
		}
	case token.LAND, token.LOR:
		ex.abort("unexpected logical operator in SSA")
	default:
		ex.abort("binary operator %s is outside the verified subset", t.Op)
	}
}

func (ex *Exec) sliceOp(st *State, t *ssa.Slice) {
	var lo, hi, max Term
	lo = intLit(0)
	if t.Low != nil {
		lo = ex.val(st, t.Low)
	}
	name := fmt.Sprintf("safe/slice#%d", ex.ordinal[t])
	switch xt := t.X.Type().Underlying().(type) {
	case *types.Slice:
		s := ex.val(st, t.X)
		hi = slLen(s)
		if t.High != nil {
			hi = ex.val(st, t.High)
		}
		cp := slCap(s)
		if t.Max != nil {
			max = ex.val(st, t.Max)
			st.check(name, "bounds", and(le(intLit(0), lo), le(lo, hi), le(hi, max), le(max, cp)), "slice bounds in range", nil, t.Pos())
			st.vals[t] = mkSlice(slArr(s), add(slOff(s), lo), sub(hi, lo), sub(max, lo))
		} else {
			st.check(name, "bounds", and(le(intLit(0), lo), le(lo, hi), le(hi, cp)), "slice bounds in range", nil, t.Pos())
			st.vals[t] = mkSlice(slArr(s), add(slOff(s), lo), sub(hi, lo), sub(cp, lo))
		}
		st.noteSubslice(st.vals[t], s, lo)
	case *types.Basic:
		// string slicing
		s := ex.val(st, t.X)
		n := app(SInt, "gstr.len", s)
		hi = n
		if t.High != nil {
			hi = ex.val(st, t.High)
		}
		st.check(name, "bounds", and(le(intLit(0), lo), le(lo, hi), le(hi, n)), "string slice bounds in range", nil, t.Pos())
		r := st.sc.fresh("substr", SStr)
		st.sc.assert(eq(app(SInt, "gstr.len", r), sub(hi, lo)))
		st.sc.emit("(assert (forall ((k Int)) (! (=> (and (<= 0 k) (< k (- %[1]s %[2]s))) (= (gstr.at %[3]s k) (gstr.at %[4]s (+ %[2]s k)))) :pattern ((gstr.at %[3]s k)))))", hi.S, lo.S, r.S, s.S)
		st.vals[t] = r
	case *types.Pointer:
		at := xt.Elem().Underlying().(*types.Array)
		base := ex.locOf(st, t.X)
		n := intLit(at.Len())
		hi = n
		if t.High != nil {
			hi = ex.val(st, t.High)
		}
		st.check(name, "bounds", and(le(intLit(0), lo), le(lo, hi), le(hi, n)), "slice bounds in range", nil, t.Pos())
		st.vals[t] = mkSlice(base.Obj, lo, sub(hi, lo), sub(n, lo))
		st.noteSubslice(st.vals[t], mkSlice(base.Obj, intLit(0), n, n), lo)
	default:
		ex.abort("slice of %s", t.X.Type())
	}
}

func (ex *Exec) convert(st *State, t *ssa.Convert) {
	x := ex.val(st, t.X)
	from, to := t.X.Type(), t.Type()
	fs, ts := st.u().sortOf(from), st.u().sortOf(to)
	switch {
	case fs == SInt && ts == SInt:
		if needsWrap(from, to) {
			r := st.sc.fresh(t.Name(), SInt)
			st.sc.assert(eq(r, wrapInt(x, to)))
			st.vals[t] = r
		} else {
			st.vals[t] = x
		}
	case fs == SStr && ts == SSlice:
		// []byte(s): fresh array with the bytes of s
		id := ex.newObject(st, "bytes")
		f := st.elemFam(SInt)
		st.updateFamWhere(f, func(p []Term) Term { return eq(p[0], id) }, func(p []Term) Term { _, abs := elemAbs(p); return app(SInt, "gstr.at", x, abs) })
		n := app(SInt, "gstr.len", x)
		st.vals[t] = mkSlice(id, intLit(0), n, n)
		if st.strConv == nil {
			st.strConv = map[string]Term{}
		}
		st.strConv[id.S] = x
	case fs == SSlice && ts == SStr:
		st.vals[t] = st.stringOfBytes(st.heap, x)
	case fs == SInt && ts == SStr:
		st.vals[t] = st.runeString(x)
	case fs == ts:
		st.vals[t] = x
	default:
		ex.abort("conversion %s -> %s is outside the verified subset", from, to)
	}
}

func (ex *Exec) typeAssert(st *State, t *ssa.TypeAssert) {
	x := ex.val(st, t.X)
	at := t.AssertedType
	var ok, val Term
	if _, isIface := at.Underlying().(*types.Interface); isIface {
		ok = st.implementsPred(ifType(x), at)
		val = x
		if t.CommaOk {
			val = ite(ok, x, nilIface)
		}
	} else {
		tid := st.u().typeID(at)
		ok = eq(ifType(x), intLit(int64(tid)))
		raw := st.unbox(ifPayload(x), at)
		st.sc.ensureSort(raw.Sort)
		if t.CommaOk {
			val = ite(ok, raw, st.u().zero(raw.Sort))
		} else {
			val = raw
		}
	}
	if t.CommaOk {
		if _, isIface := at.Underlying().(*types.Interface); !isIface {
			// what an interface value holds was created before the interface value itself
			raw := st.unbox(ifPayload(x), at)
			bound := st.alloc
			switch t.X.(type) {
			case *ssa.Parameter, *ssa.FreeVar:
				bound = st.alloc0
			}
			saved := st.alloc
			st.alloc = bound
			st.assumeWellFormed(raw, at)
			st.alloc = saved
		}
		st.tuples[t] = []Term{val, ok}
		return
	}
	st.check(fmt.Sprintf("safe/assert#%d", ex.ordinal[t]), "assert", ok, "type assertion to "+at.String()+" cannot fail", nil, t.Pos())
	nv := st.sc.fresh(t.Name(), val.Sort)
	st.sc.assert(eq(nv, val))
	st.assumeWellFormed(nv, at)
	st.vals[t] = nv
}

func (ex *Exec) next(st *State, t *ssa.Next) {
	if t.IsString {
		ex.abort("range over string is outside the verified subset")
	}
	it := st.iters[t.Iter]
	if it == nil {
		ex.abort("next on unknown iterator")
	}
	d, vf, lf := st.mapFamsT(it.MapType)
	if st.heap[d.Name] != it.StartDom {
		// Go leaves the set of keys produced unspecified when the map is
		// modified during iteration: require that it is not
		st.sc.nfresh++
		q := fmt.Sprintf("k!m%d", st.sc.nfresh)
		st.check(fmt.Sprintf("safe/rangemod#%d", ex.ordinal[t]), "rangemod", T(SBool, "(forall ((%[1]s %[2]s)) (! (= (%[3]s %[5]s %[1]s) (%[4]s %[5]s %[1]s)) :pattern ((%[3]s %[5]s %[1]s))))", q, it.KSort, st.heap[d.Name], it.StartDom, it.Map.S), "the map is not modified while it is being ranged over", nil, t.Pos())
		it.StartDom = st.heap[d.Name]
	}
	ok := st.sc.fresh("next_ok", SBool)
	mlen := st.readFam(st.heap, lf, it.Map)
	// a range over an unmodified map produces every key exactly once
	st.sc.assert(and(le(intLit(0), it.Count), ite(ok, lt(it.Count, mlen), eq(it.Count, mlen))))
	nc := st.sc.fresh("itercount", SInt)
	st.sc.assert(eq(nc, ite(ok, add(it.Count, intLit(1)), it.Count)))
	it.Count = nc
	k := st.sc.fresh("next_k", it.KSort)
	st.assumeWellFormed(k, it.MapType.Key())
	inDom := st.readFam(st.heap, d, it.Map, k)
	// ok: k is an unvisited key; !ok: every key has been visited
	st.sc.assert(implies(ok, and(inDom, not(app(SBool, it.Visited, k)))))
	st.sc.emit("(assert (=> (not %s) (forall ((k %s)) (! (=> (%s %s k) (%s k)) :pattern ((%s %s k))))))", ok.S, it.KSort, st.heap[d.Name], it.Map.S, it.Visited, st.heap[d.Name], it.Map.S)
	v := st.sc.fresh("next_v", it.VSort)
	st.sc.assert(implies(ok, eq(v, st.readFam(st.heap, vf, it.Map, k))))
	st.assumeWellFormed(v, it.MapType.Elem())
	// visited' = visited + {k} when ok
	nv := st.sc.freshFun("visited", []Sort{it.KSort}, SBool)
	st.sc.emit("(assert (forall ((k %s)) (! (= (%s k) (or (%s k) (and %s (= k %s)))) :pattern ((%s k)))))", it.KSort, nv, it.Visited, ok.S, k.S, nv)
	it.Visited = nv
	st.tuples[t] = []Term{ok, k, v}
}

// ---------------------------------------------------------------------------
// frame obligations

type frameTarget struct {
	Fam string
	Obj Term
	Idx *Term
	Lo  *Term // ranged target [Lo,Hi)
	Hi  *Term
}

// isSyntacticallyFresh: the address is rooted in an object allocated by this
// function activation (Alloc / MakeSlice / MakeMap / MakeClosure reached by
// address arithmetic only).
func isSyntacticallyFresh(v ssa.Value) bool {
	for {
		switch t := v.(type) {
		case *ssa.Alloc, *ssa.MakeSlice, *ssa.MakeMap, *ssa.MakeClosure:
			return true
		case *ssa.FieldAddr:
			v = t.X
		case *ssa.IndexAddr:
			v = t.X
		case *ssa.Slice:
			v = t.X
		case *ssa.ChangeType:
			v = t.X
		default:
			return false
		}
	}
}

func (ex *Exec) assignableCond(st *State, ft frameTarget) Term {
	conds := []Term{ge(ft.Obj, st.alloc0)}
	if ft.Lo != nil && ft.Hi != nil {
		conds = append(conds, ge(*ft.Lo, *ft.Hi)) // an empty range writes nothing
	}
	for _, ls := range ex.assign {
		if ls.Fam != ft.Fam {
			continue
		}
		if ls.Region {
			if ls.ArrType != 0 && strings.HasPrefix(ls.Fam, "E.") {
				st.declArrType()
				conds = append(conds, eq(app(SInt, "arr.type", ft.Obj), intLit(int64(ls.ArrType))))
				continue
			}
			return tTrue
		}
		c := ls.member(ft.Obj)
		if ls.Guard != nil {
			c = and(*ls.Guard, c)
		}
		if ls.Ranged {
			if ft.Idx != nil {
				c = and(c, le(ls.Lo, *ft.Idx), lt(*ft.Idx, ls.Hi))
			} else if ft.Lo != nil {
				c = and(c, or(ge(*ft.Lo, *ft.Hi), and(le(ls.Lo, *ft.Lo), le(*ft.Hi, ls.Hi))))
			} else {
				continue
			}
		}
		conds = append(conds, c)
	}
	return or(conds...)
}

func (ex *Exec) frameCheck(st *State, name string, pos token.Pos, root ssa.Value, targets []frameTarget) {
	if root != nil && isSyntacticallyFresh(root) {
		st.check(name, "frame", tTrue, "write to memory allocated by this call (syntactic)", nil, pos)
		return
	}
	var cs []Term
	for _, ft := range targets {
		cs = append(cs, ex.assignableCond(st, ft))
	}
	st.check(name, "frame", and(cs...), "write only to memory allocated by this call or named in assigns", nil, pos)
}

func (ex *Exec) frameStore(st *State, t *ssa.Store, l Loc) {
	name := fmt.Sprintf("frame/store#%d", ex.ordinal[t])
	if g, ok := t.Addr.(*ssa.Global); ok && g.Name() == "init$guard" {
		return
	}
	// C14: outside the package initialisers a package-level variable is never written by a plain store
	// (the only writer of one, Memoize, goes through sync/atomic)
	if g, ok := t.Addr.(*ssa.Global); ok && ex.fn.Synthetic != "package initializer" && ex.fn.Name() != "init" && !strings.HasPrefix(ex.fn.Name(), "init#") {
		st.check(fmt.Sprintf("race/global-store#%d:%s", ex.ordinal[t], g.Name()), "frame", tFalse, "plain (non-atomic) store to the package-level variable "+g.Name()+" outside an initialiser: shared by every concurrent parse", nil, t.Pos())
	}
	switch l.Kind {
	case LObj:
		si := st.u().structInfoOf(l.Type)
		var fts []frameTarget
		for i := range si.Fields {
			fts = append(fts, frameTarget{Fam: st.fieldFam(si, i).Name, Obj: l.Obj})
		}
		ex.frameCheck(st, name, t.Pos(), t.Addr, fts)
	case LCell, LField:
		ex.frameCheck(st, name, t.Pos(), t.Addr, []frameTarget{{Fam: l.Fam, Obj: l.Obj}})
	case LElem:
		idx := l.Idx
		ex.frameCheck(st, name, t.Pos(), t.Addr, []frameTarget{{Fam: l.Fam, Obj: l.Obj, Idx: &idx}})
	default:
		ex.abort("store to %s", l)
	}
}

func isNilConst(v ssa.Value) bool {
	c, ok := v.(*ssa.Const)
	return ok && c.Value == nil
}

// declComparable: type.comparable(id) for every registered dynamic type (Go's comparability of the type); ids of
// types the program does not know are left unconstrained
func (st *State) declComparable() {
	if st.sc.declared["fun:type.comparable"] {
		return
	}
	st.sc.declFun("type.comparable", []Sort{SInt}, SBool)
	st.sc.emit("(assert (type.comparable 0))")
	u := st.u()
	ids := make([]int, 0, len(u.typeByID))
	for id := range u.typeByID {
		ids = append(ids, id)
	}
	sort.Ints(ids)
	for _, id := range ids {
		t := u.typeByID[id]
		if _, isIface := t.Underlying().(*types.Interface); isIface {
			continue
		}
		if types.Comparable(t) {
			st.sc.emit("(assert (type.comparable %d))", id)
		} else {
			st.sc.emit("(assert (not (type.comparable %d)))", id)
		}
	}
}
