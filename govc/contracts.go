package main

// Contract files: comment-only Go files (`//go:build verif`) named
// zz_contracts_verif.go inside each package of /repo. Every line that starts
// with `//@` belongs to the contract language. This file parses them and
// produces, per package, a synthetic Go source (overlay only, never written to
// /repo) in which each clause is a function `func zzc_N(binders...) bool
// { return <expr> }`, so that go/types type-checks every contract expression
// against the real package.

import (
	"fmt"
	"go/ast"
	"go/parser"
	"go/token"
	"go/types"
	"os"
	"path/filepath"
	"regexp"
	"sort"
	"strconv"
	"strings"
)

type Binder struct {
	Name string
	Type string // Go source text of the type
}

type Clause struct {
	Anchor string  // ghost_at: instruction anchor
	Like   string  // assigns like <contract>(args): name of the contract whose footprint is meant
	Cond   *Clause // ghost updates: optional `when` condition
	Target *Clause // ghost updates: the ghost variable (as an expression clause)
	Kind   string // requires ensures invariant assigns decreases
	Label  string
	Props  []string
	Text   string
	GoText string
	FnName string
	Expr   ast.Expr // after load
	File   string
	Line   int
	Owner  *Contract
}

type LoopContract struct {
	N          int
	Binders    []Binder
	Invariants []*Clause
	Decreases  *Clause
}

type Contract struct {
	Kind     string // func assume interface functype lemma
	PkgPath  string
	PkgDir   string
	Target   string // canonical key, see keyOfFunction
	Name     string // display name
	Recv     *Binder
	Params   []Binder
	Results  []Binder
	Captures []Binder
	Lets     []*Clause // let x = expr (Label holds the name)
	Requires []*Clause
	Ensures  []*Clause
	Assigns  []*Clause
	Loops    map[int]*LoopContract
	Props    []string
	Flags    map[string]bool
	Refines  []string
	Includes []string
	Except   map[string]map[string]bool // include X except labels
	Logs     []string                   // contract targets whose calls are recorded in the call log
	GEntry   []*Clause // ghost updates at entry: Label = ghost variable expression text
	GReturn  []*Clause // ghost updates at return (Cond optional)
	GAt      []*Clause // ghost updates right after an anchored instruction
	Asserts  []*Clause // assert_at clauses
	Parent   *Contract // callee contracts: the contract of the enclosing function
	File     string
	Line     int
}

type PureFunc struct {
	Name    string
	PkgPath string
	FnName  string
	Decl    *ast.FuncDecl // after load
	Rec     bool          // declared `rec`: uninterpreted + unfolding axiom
	Opaque  bool
	Abstract bool         // uninterpreted spec function
	GhostFun bool         // ghost function-valued state (a heap family only contracts mention)
	HasDefault bool       // virtual functions: body is the value for dynamic types without a definition
	Virtual  bool         // spec-level interface method: value given by `specmethod` definitions per dynamic type
	RecvType string       // method definitions: receiver type text
	Method  string
	File    string
	Line    int
}

type Axiom struct {
	Name    string
	PkgPath string
	Clause  *Clause
}

type PkgContracts struct {
	KindProps map[string][]string
	Axioms    []*Axiom
	GlobalInvs []*Contract
	TypeInvs   []*Contract
	PkgPath   string
	Dir       string
	PkgName   string
	Imports   []string
	Contracts []*Contract
	Pures     []*PureFunc
	Ghosts    []string // raw Go var declarations
	Synth     string   // generated source
	SynthFile string
	clauseSeq int
}

var kwRe = regexp.MustCompile(`^(import|pure|rec|opaque|abstract|virtual|ghostfun|specmethod|method|callee|closure|ghost_entry|ghost_return|ghost_at|assert_at|include|kindprops|func|assume|interface|functype|captures|axiom|globalinv|typeinv|requires|ensures|assigns|decreases|loop|invariant|lemma|props|ghost|let|flag|refines|logs|var)\b`)

func parseContractFile(path, pkgPath string) (*PkgContracts, error) {
	b, err := os.ReadFile(path)
	if err != nil {
		return nil, err
	}
	pc := &PkgContracts{PkgPath: pkgPath, Dir: filepath.Dir(path)}
	lines := strings.Split(string(b), "\n")
	// group logical lines
	type ll struct {
		text   string
		line   int
		indent int
	}
	var logical []ll
	for i, l := range lines {
		t := strings.TrimSpace(l)
		if strings.HasPrefix(t, "package ") && pc.PkgName == "" {
			pc.PkgName = strings.TrimSpace(strings.TrimPrefix(t, "package "))
		}
		if !strings.HasPrefix(t, "//@") {
			continue
		}
		rawBody := strings.TrimPrefix(t, "//@")
		body := strings.TrimSpace(rawBody)
		indent := len(rawBody) - len(strings.TrimLeft(rawBody, " \t"))
		if body == "" || strings.HasPrefix(body, "--") {
			continue
		}
		// strip trailing comment `// ...` (not inside string)
		if k := findTrailingComment(body); k >= 0 {
			body = strings.TrimSpace(body[:k])
		}
		if body == "" {
			continue
		}
		if kwRe.MatchString(body) || len(logical) == 0 {
			logical = append(logical, ll{body, i + 1, indent})
		} else {
			logical[len(logical)-1].text += " " + body
		}
	}
	var cur *Contract
	var curLoop *LoopContract
	var defProps []string
	for _, l := range logical {
		kw := kwRe.FindString(l.text)
		rest := strings.TrimSpace(l.text[len(kw):])
		mkClause := func(kind string) *Clause {
			c := &Clause{Kind: kind, File: path, Line: l.line, Owner: cur}
			r := rest
			if strings.HasPrefix(r, "[") {
				end := strings.Index(r, "]")
				tag := r[1:end]
				r = strings.TrimSpace(r[end+1:])
				parts := strings.SplitN(tag, ";", 2)
				c.Label = strings.TrimSpace(parts[0])
				if len(parts) > 1 {
					for _, p := range strings.Split(parts[1], ",") {
						if p = strings.TrimSpace(p); p != "" {
							c.Props = append(c.Props, p)
						}
					}
				}
			}
			c.Text = r
			return c
		}
		switch kw {
		case "import":
			p, err := strconv.Unquote(rest)
			if err != nil {
				return nil, fmt.Errorf("%s:%d: bad import %s", path, l.line, rest)
			}
			pc.Imports = append(pc.Imports, p)
		case "props":
			ps := splitList(rest)
			if cur == nil || l.indent <= 1 {
				// section level: default for the contracts that follow
				defProps = ps
				cur, curLoop = nil, nil
			} else {
				cur.Props = ps
			}
		case "ghost", "var":
			pc.Ghosts = append(pc.Ghosts, rest)
		case "pure", "rec", "opaque":
			// pure func name(params) T = expr
			r := rest
			pf := &PureFunc{PkgPath: pkgPath, File: path, Line: l.line}
			if kw == "rec" {
				pf.Rec = true
			}
			if kw == "opaque" {
				pf.Opaque = true
			}
			r = strings.TrimSpace(strings.TrimPrefix(r, "pure"))
			if !strings.HasPrefix(r, "func ") {
				return nil, fmt.Errorf("%s:%d: expected func after %s", path, l.line, kw)
			}
			eq := indexTopLevel(r, " = ")
			if eq < 0 {
				return nil, fmt.Errorf("%s:%d: pure func needs ` = expr`", path, l.line)
			}
			head := strings.TrimSpace(r[:eq])
			body := strings.TrimSpace(r[eq+3:])
			nm := regexp.MustCompile(`^func\s+([A-Za-z_][A-Za-z_0-9]*)`).FindStringSubmatch(head)
			if nm == nil {
				return nil, fmt.Errorf("%s:%d: bad pure func head", path, l.line)
			}
			pf.Name = nm[1]
			pf.FnName = nm[1]
			pc.Synth += fmt.Sprintf("//line %s:%d\n%s { return %s }\n", path, l.line, head, rewriteSpec(body))
			pc.Pures = append(pc.Pures, pf)
			cur, curLoop = nil, nil
		case "virtual":
			// virtual func Name(recv I, params) T : a spec-only method of an interface value; concrete
			// types define it with `specmethod (x T) Name(params) (r R) = expr` (in any package)
			head := strings.TrimSpace(rest)
			nm := regexp.MustCompile(`^func\s+([A-Za-z_][A-Za-z_0-9]*)`).FindStringSubmatch(head)
			if nm == nil {
				return nil, fmt.Errorf("%s:%d: bad virtual func", path, l.line)
			}
			pf := &PureFunc{PkgPath: pkgPath, File: path, Line: l.line, Name: nm[1], FnName: nm[1], Virtual: true}
			body := "panic(0)"
			if di := indexTopLevel(head, " default "); di >= 0 {
				// value for dynamic types without a specmethod definition
				body = "return " + rewriteSpec(head[di+9:])
				head = strings.TrimSpace(head[:di])
				pf.HasDefault = true
			}
			pc.Synth += fmt.Sprintf("//line %s:%d\n%s { %s }\n", path, l.line, head, body)
			pc.Pures = append(pc.Pures, pf)
			cur, curLoop = nil, nil
		case "ghostfun":
			// ghostfun Name(params) T : function-valued ghost state, versioned like the heap
			head := "func " + strings.TrimSpace(rest)
			nm := regexp.MustCompile(`^func\s+([A-Za-z_][A-Za-z_0-9]*)`).FindStringSubmatch(head)
			if nm == nil {
				return nil, fmt.Errorf("%s:%d: bad ghostfun", path, l.line)
			}
			pf := &PureFunc{PkgPath: pkgPath, File: path, Line: l.line, Name: nm[1], FnName: nm[1], GhostFun: true}
			pc.Synth += fmt.Sprintf("//line %s:%d\n%s { panic(0) }\n", path, l.line, head)
			pc.Pures = append(pc.Pures, pf)
			cur, curLoop = nil, nil
		case "abstract":
			// abstract func name(params) T   -- an uninterpreted spec function
			head := strings.TrimSpace(rest)
			nm := regexp.MustCompile(`^func\s+([A-Za-z_][A-Za-z_0-9]*)`).FindStringSubmatch(head)
			if nm == nil {
				return nil, fmt.Errorf("%s:%d: bad abstract func", path, l.line)
			}
			pf := &PureFunc{PkgPath: pkgPath, File: path, Line: l.line, Name: nm[1], FnName: nm[1], Abstract: true}
			pc.Synth += fmt.Sprintf("//line %s:%d\n%s { panic(0) }\n", path, l.line, head)
			pc.Pures = append(pc.Pures, pf)
			cur, curLoop = nil, nil
		case "method", "specmethod":
			// method (e T) Name(params) (r R) = expr : value of a pure method for a concrete receiver type;
			// the real method is verified to return exactly this and to assign nothing
			eqi := indexTopLevel(rest, " = ")
			if eqi < 0 {
				return nil, fmt.Errorf("%s:%d: method needs ` = expr`", path, l.line)
			}
			head, body := strings.TrimSpace(rest[:eqi]), strings.TrimSpace(rest[eqi+3:])
			c := &Contract{Kind: "func", PkgPath: pkgPath, PkgDir: pc.Dir, Loops: map[int]*LoopContract{}, Flags: map[string]bool{"pure": true}, File: path, Line: l.line, Props: defProps}
			if err := parseHeader(c, head); err != nil {
				return nil, fmt.Errorf("%s:%d: %v", path, l.line, err)
			}
			if c.Recv == nil || len(c.Results) != 1 {
				return nil, fmt.Errorf("%s:%d: method definition needs a receiver and one result", path, l.line)
			}
			c.Ensures = append(c.Ensures, &Clause{Kind: "ensures", Label: "def", Text: "same(" + c.Results[0].Name + ", " + body + ")", File: path, Line: l.line, Owner: c})
			c.Assigns = append(c.Assigns, &Clause{Kind: "assigns", Text: "nothing", File: path, Line: l.line, Owner: c})
			if strings.HasPrefix(c.Recv.Type, "*") {
				c.Requires = append(c.Requires, &Clause{Kind: "requires", Text: c.Recv.Name + " != nil", File: path, Line: l.line, Owner: c})
			}
			if kw == "method" {
				pc.Contracts = append(pc.Contracts, c)
			}
			fn := "zzm_" + sanitize(c.Recv.Type) + "_" + c.Name
			pf := &PureFunc{PkgPath: pkgPath, File: path, Line: l.line, Name: fn, FnName: fn, RecvType: c.Recv.Type, Method: c.Name}
			params := binderList(append([]Binder{*c.Recv}, c.Params...))
			pc.Synth += fmt.Sprintf("//line %s:%d\nfunc %s(%s) %s { return %s }\n", path, l.line, fn, params, c.Results[0].Type, rewriteSpec(body))
			pc.Pures = append(pc.Pures, pf)
			if kw == "method" {
				cur, curLoop = c, nil
			} else {
				cur, curLoop = nil, nil
			}
		case "callee":
			// callee f(params) (results): contract of a function-typed parameter of the current contract
			if cur == nil {
				return nil, fmt.Errorf("%s:%d: callee outside a contract", path, l.line)
			}
			c := &Contract{Kind: "functype", PkgPath: pkgPath, PkgDir: pc.Dir, Loops: map[int]*LoopContract{}, Flags: map[string]bool{}, File: path, Line: l.line, Props: cur.Props}
			if err := parseHeader(c, rest); err != nil {
				return nil, fmt.Errorf("%s:%d: %v", path, l.line, err)
			}
			c.Target = cur.Target + "#" + c.Name
			c.Parent = cur
			pc.Contracts = append(pc.Contracts, c)
			cur, curLoop = c, nil
		case "closure":
			// closure <key>$N(params) (results): contract of a function literal, keyed by enclosing function and ordinal
			m := regexp.MustCompile(`^(.*\$\d+)\s*(\(.*)$`).FindStringSubmatch(rest)
			if m == nil {
				return nil, fmt.Errorf("%s:%d: bad closure header", path, l.line)
			}
			c := &Contract{Kind: "func", PkgPath: pkgPath, PkgDir: pc.Dir, Loops: map[int]*LoopContract{}, Flags: map[string]bool{}, File: path, Line: l.line, Props: defProps}
			if err := parseHeader(c, "zzclosure"+m[2]); err != nil {
				return nil, fmt.Errorf("%s:%d: %v", path, l.line, err)
			}
			c.Name = m[1]
			c.Target = pkgPath + "." + m[1]
			pc.Contracts = append(pc.Contracts, c)
			cur, curLoop = c, nil
		case "func", "assume", "interface", "functype", "lemma":
			c := &Contract{Kind: kw, PkgPath: pkgPath, PkgDir: pc.Dir, Loops: map[int]*LoopContract{}, Flags: map[string]bool{}, File: path, Line: l.line, Props: defProps}
			r := rest
			if kw == "assume" {
				r = strings.TrimSpace(strings.TrimPrefix(r, "func"))
			}
			if err := parseHeader(c, r); err != nil {
				return nil, fmt.Errorf("%s:%d: %v", path, l.line, err)
			}
			pc.Contracts = append(pc.Contracts, c)
			cur, curLoop = c, nil
		case "axiom":
			ax := &Contract{Kind: "axiom", PkgPath: pkgPath, PkgDir: pc.Dir, Loops: map[int]*LoopContract{}, Flags: map[string]bool{}, File: path, Line: l.line}
			save := cur
			cur = ax
			cl := mkClause("requires")
			cur = save
			cl.Owner = ax
			ax.Requires = append(ax.Requires, cl)
			ax.Name = cl.Label
			ax.Target = pkgPath + ".axiom." + cl.Label
			pc.Contracts = append(pc.Contracts, ax)
			pc.Axioms = append(pc.Axioms, &Axiom{Name: cl.Label, PkgPath: pkgPath, Clause: cl})
		case "typeinv":
			// typeinv (x T) EXPR : invariant of the encapsulated objects of type T: assumed at the entry of
			// T's methods, checked whenever a function of the package returns a T
			m := regexp.MustCompile(`^\(\s*([A-Za-z_][A-Za-z_0-9]*)\s+([^)]+)\)\s*(.*)$`).FindStringSubmatch(rest)
			if m == nil {
				return nil, fmt.Errorf("%s:%d: bad typeinv", path, l.line)
			}
			ti := &Contract{Kind: "typeinv", PkgPath: pkgPath, PkgDir: pc.Dir, Loops: map[int]*LoopContract{}, Flags: map[string]bool{}, File: path, Line: l.line, Props: defProps}
			ti.Recv = &Binder{Name: m[1], Type: strings.TrimSpace(m[2])}
			rest = m[3]
			save := cur
			cur = ti
			cl := mkClause("requires")
			cur = save
			cl.Owner = ti
			ti.Requires = append(ti.Requires, cl)
			ti.Name = cl.Label
			ti.Target = pkgPath + ".typeinv." + ti.Recv.Type + "." + cl.Label
			pc.Contracts = append(pc.Contracts, ti)
			pc.TypeInvs = append(pc.TypeInvs, ti)
		case "globalinv":
			gi := &Contract{Kind: "globalinv", PkgPath: pkgPath, PkgDir: pc.Dir, Loops: map[int]*LoopContract{}, Flags: map[string]bool{}, File: path, Line: l.line, Props: defProps}
			save := cur
			cur = gi
			cl := mkClause("requires")
			cur = save
			cl.Owner = gi
			gi.Requires = append(gi.Requires, cl)
			gi.Name = cl.Label
			gi.Target = pkgPath + ".globalinv." + cl.Label
			pc.Contracts = append(pc.Contracts, gi)
			pc.GlobalInvs = append(pc.GlobalInvs, gi)
		case "captures":
			bs, err := parseBinders(rest)
			if err != nil {
				return nil, fmt.Errorf("%s:%d: %v", path, l.line, err)
			}
			cur.Captures = bs
		case "flag":
			for _, f := range splitList(rest) {
				cur.Flags[f] = true
			}
		case "refines":
			cur.Refines = append(cur.Refines, splitList(rest)...)
		case "logs":
			// logs T1, T2: the calls recorded in this function's call log (default: calls under the Parser contract)
			cur.Logs = append(cur.Logs, splitList(rest)...)
		case "include":
			// include X [except label, label]
			parts := strings.SplitN(rest, " except ", 2)
			for _, inc := range splitList(parts[0]) {
				cur.Includes = append(cur.Includes, inc)
				if len(parts) == 2 {
					if cur.Except == nil {
						cur.Except = map[string]map[string]bool{}
					}
					cur.Except[inc] = map[string]bool{}
					for _, lb := range splitList(parts[1]) {
						cur.Except[inc][lb] = true
					}
				}
			}
		case "kindprops":
			if pc.KindProps == nil {
				pc.KindProps = map[string][]string{}
			}
			for _, item := range strings.Fields(rest) {
				kv := strings.SplitN(item, "=", 2)
				if len(kv) == 2 {
					pc.KindProps[kv[0]] = append(pc.KindProps[kv[0]], strings.Split(kv[1], ",")...)
				}
			}
		case "assert_at":
			// assert_at <anchor> EXPR : an intermediate assertion (checked, then assumed) right after the
			// anchored instruction (or at `entry`): a proof hint, like an assert statement in the code
			sp := strings.IndexAny(rest, " \t")
			if sp < 0 {
				return nil, fmt.Errorf("%s:%d: assert_at needs an anchor", path, l.line)
			}
			anchor := rest[:sp]
			rest = strings.TrimSpace(rest[sp:])
			cl := mkClause("assertat")
			cl.Anchor = anchor
			cur.Asserts = append(cur.Asserts, cl)
		case "ghost_entry", "ghost_return", "ghost_at":
			// ghost_entry NAME = EXPR        ghost_return [when COND ::] NAME = EXPR
			// ghost_at <anchor> [when COND ::] NAME = EXPR     (anchor: append#1, call#2, ... — right after that instruction)
			r := rest
			anchor := ""
			if kw == "ghost_at" {
				sp := strings.IndexAny(r, " \t")
				if sp < 0 {
					return nil, fmt.Errorf("%s:%d: ghost_at needs an anchor", path, l.line)
				}
				anchor = r[:sp]
				r = strings.TrimSpace(r[sp:])
			}
			var cond *Clause
			if strings.HasPrefix(r, "when ") {
				dc := indexTopLevel(r, "::")
				if dc < 0 {
					return nil, fmt.Errorf("%s:%d: ghost update: `when COND ::` expected", path, l.line)
				}
				cond = &Clause{Kind: "gcond", Text: strings.TrimSpace(r[5:dc]), File: path, Line: l.line, Owner: cur}
				r = strings.TrimSpace(r[dc+2:])
			}
			eqi := indexTopLevel(r, " = ")
			if eqi < 0 {
				return nil, fmt.Errorf("%s:%d: ghost update needs NAME = EXPR", path, l.line)
			}
			cl := &Clause{Kind: "gupdate", Label: strings.TrimSpace(r[:eqi]), Text: strings.TrimSpace(r[eqi+3:]), File: path, Line: l.line, Owner: cur, Cond: cond}
			cl.Target = &Clause{Kind: "gtarget", Text: cl.Label, File: path, Line: l.line, Owner: cur}
			cl.Anchor = anchor
			if kw == "ghost_entry" {
				cur.GEntry = append(cur.GEntry, cl)
			} else if kw == "ghost_at" {
				cur.GAt = append(cur.GAt, cl)
			} else {
				cur.GReturn = append(cur.GReturn, cl)
			}
		case "let":
			c := mkClause("let")
			eq := strings.Index(c.Text, "=")
			c.Label = strings.TrimSpace(c.Text[:eq])
			c.Text = strings.TrimSpace(c.Text[eq+1:])
			cur.Lets = append(cur.Lets, c)
		case "requires":
			cur.Requires = append(cur.Requires, mkClause("requires"))
		case "ensures":
			cur.Ensures = append(cur.Ensures, mkClause("ensures"))
		case "assigns":
			cl := mkClause("assigns")
			if strings.HasPrefix(cl.Text, "like ") {
				// assigns like <contract>(args): the footprint of another contract, instantiated
				m := regexp.MustCompile(`^like\s+([A-Za-z_][A-Za-z_0-9./$*()]*?)\((.*)\)$`).FindStringSubmatch(cl.Text)
				if m == nil {
					return nil, fmt.Errorf("%s:%d: bad `assigns like`", path, l.line)
				}
				cl.Like = m[1]
				cl.Text = m[2]
			}
			cur.Assigns = append(cur.Assigns, cl)
		case "decreases":
			c := mkClause("decreases")
			if curLoop != nil {
				curLoop.Decreases = c
			}
		case "loop":
			// loop N (binders)
			m := regexp.MustCompile(`^#?(\d+)\s*(\(.*\))?$`).FindStringSubmatch(rest)
			if m == nil {
				return nil, fmt.Errorf("%s:%d: bad loop header", path, l.line)
			}
			n, _ := strconv.Atoi(m[1])
			lc := &LoopContract{N: n}
			if m[2] != "" {
				bs, err := parseBinders(m[2])
				if err != nil {
					return nil, fmt.Errorf("%s:%d: %v", path, l.line, err)
				}
				lc.Binders = bs
			}
			cur.Loops[n] = lc
			curLoop = lc
		case "invariant":
			if curLoop == nil {
				return nil, fmt.Errorf("%s:%d: invariant outside loop", path, l.line)
			}
			curLoop.Invariants = append(curLoop.Invariants, mkClause("invariant"))
		default:
			return nil, fmt.Errorf("%s:%d: cannot parse contract line %q", path, l.line, l.text)
		}
	}
	return pc, nil
}

func findTrailingComment(s string) int {
	inStr := byte(0)
	for i := 0; i+1 < len(s); i++ {
		c := s[i]
		if inStr != 0 {
			if c == '\\' {
				i++
			} else if c == inStr {
				inStr = 0
			}
			continue
		}
		if c == '"' || c == '\'' || c == '`' {
			inStr = c
			continue
		}
		if c == '/' && s[i+1] == '/' {
			return i
		}
	}
	return -1
}

func splitList(s string) []string {
	var out []string
	for _, p := range strings.FieldsFunc(s, func(r rune) bool { return r == ',' || r == ' ' }) {
		if p != "" {
			out = append(out, p)
		}
	}
	return out
}

var headRe = regexp.MustCompile(`^(\([^)]*\)\s*)?([A-Za-z_][A-Za-z_0-9./$*]*)\s*(\(.*)$`)

func parseHeader(c *Contract, r string) error {
	m := headRe.FindStringSubmatch(r)
	if m == nil {
		return fmt.Errorf("bad contract header %q", r)
	}
	recv, name, sig := strings.TrimSpace(m[1]), m[2], m[3]
	c.Name = name
	src := "package p\nfunc " + recv + " zzname" + sig + " {}"
	fset := token.NewFileSet()
	f, err := parser.ParseFile(fset, "hdr.go", src, 0)
	if err != nil {
		return fmt.Errorf("bad header %q: %v", r, err)
	}
	fd := f.Decls[0].(*ast.FuncDecl)
	fl := func(l *ast.FieldList, pfx string) []Binder {
		var out []Binder
		if l == nil {
			return out
		}
		n := 0
		for _, fld := range l.List {
			ts := types.ExprString(fld.Type)
			if len(fld.Names) == 0 {
				out = append(out, Binder{fmt.Sprintf("%s%d_", pfx, n), ts})
				n++
			}
			for _, nm := range fld.Names {
				nn := nm.Name
				if nn == "_" {
					nn = fmt.Sprintf("%s%d_", pfx, n)
				}
				out = append(out, Binder{nn, ts})
				n++
			}
		}
		return out
	}
	if fd.Recv != nil {
		rb := fl(fd.Recv, "recv")
		c.Recv = &rb[0]
	}
	c.Params = fl(fd.Type.Params, "p")
	c.Results = fl(fd.Type.Results, "r")
	// canonical target
	switch c.Kind {
	case "func":
		if c.Recv != nil {
			c.Target = c.PkgPath + ".(" + c.Recv.Type + ")." + name
		} else {
			c.Target = c.PkgPath + "." + name
		}
	case "assume", "interface", "functype":
		c.Target = name
		if c.Kind == "assume" && c.Recv != nil {
			// method of an external type: key "<import path>.(*T).Name"
			rt := c.Recv.Type
			ptr := ""
			if strings.HasPrefix(rt, "*") {
				ptr = "*"
				rt = rt[1:]
			}
			c.Target = "(" + ptr + rt + ")." + name // package alias resolved in generate()
		}
	case "lemma":
		c.Target = c.PkgPath + ".lemma." + name
	}
	return nil
}

func parseBinders(s string) ([]Binder, error) {
	s = strings.TrimSpace(s)
	if !strings.HasPrefix(s, "(") {
		s = "(" + s + ")"
	}
	src := "package p\nfunc zz" + s + " {}"
	fset := token.NewFileSet()
	f, err := parser.ParseFile(fset, "b.go", src, 0)
	if err != nil {
		return nil, fmt.Errorf("bad binder list %q: %v", s, err)
	}
	fd := f.Decls[0].(*ast.FuncDecl)
	var out []Binder
	for _, fld := range fd.Type.Params.List {
		ts := types.ExprString(fld.Type)
		for _, nm := range fld.Names {
			out = append(out, Binder{nm.Name, ts})
		}
	}
	return out, nil
}

// ---------------------------------------------------------------------------
// Rewriting the spec surface syntax into plain Go expressions.
//   A ==> B                 implies(A, B)     (lowest precedence, right assoc)
//   forall x, y T :: E      forall(func(x, y T) bool { return E })
//   exists x T :: E         exists(func(x T) bool { return E })

func indexTopLevel(s, sep string) int {
	depth := 0
	inStr := byte(0)
	for i := 0; i < len(s); i++ {
		c := s[i]
		if inStr != 0 {
			if c == '\\' {
				i++
			} else if c == inStr {
				inStr = 0
			}
			continue
		}
		switch c {
		case '"', '\'', '`':
			inStr = c
		case '(', '[', '{':
			depth++
		case ')', ']', '}':
			depth--
		default:
			if depth == 0 && strings.HasPrefix(s[i:], sep) {
				return i
			}
		}
	}
	return -1
}

var quantRe = regexp.MustCompile(`^(forall|exists)\s+`)

// indexTopLevelQuant: position of the first top-level quantifier keyword
func indexTopLevelQuant(s string) int {
	depth := 0
	inStr := byte(0)
	for i := 0; i < len(s); i++ {
		c := s[i]
		if inStr != 0 {
			if c == '\\' {
				i++
			} else if c == inStr {
				inStr = 0
			}
			continue
		}
		switch c {
		case '"', '\'', '`':
			inStr = c
		case '(', '[', '{':
			depth++
		case ')', ']', '}':
			depth--
		default:
			if depth == 0 && (c == 'f' || c == 'e') && quantRe.MatchString(s[i:]) {
				if i == 0 || !(isIdentChar(s[i-1])) {
					return i
				}
			}
		}
	}
	return -1
}

func isIdentChar(c byte) bool {
	return c == '_' || c >= '0' && c <= '9' || c >= 'a' && c <= 'z' || c >= 'A' && c <= 'Z'
}

func rewriteSpec(s string) string {
	s = strings.TrimSpace(s)
	if s == "" {
		return s
	}
	q := indexTopLevelQuant(s)
	imp := indexTopLevel(s, "==>")
	if q == 0 {
		m := quantRe.FindString(s)
		if dc := indexTopLevel(s, "::"); dc > 0 {
			kw := strings.TrimSpace(m)
			binders := strings.TrimSpace(s[len(m):dc])
			body := s[dc+2:]
			return fmt.Sprintf("%s(func(%s) bool { return %s })", kw, binders, rewriteSpec(body))
		}
	}
	if q > 0 && (imp < 0 || q < imp) {
		// a quantifier extends as far to the right as possible
		return rewriteInside(s[:q]) + " " + rewriteSpec(s[q:])
	}
	if imp >= 0 {
		return "implies(" + rewriteSpec(s[:imp]) + ", " + rewriteSpec(s[imp+3:]) + ")"
	}
	return rewriteInside(s)
}

// rewriteInside rewrites inside every parenthesised / bracketed group.
func rewriteInside(s string) string {
	var out strings.Builder
	inStr := byte(0)
	for i := 0; i < len(s); i++ {
		c := s[i]
		if inStr != 0 {
			out.WriteByte(c)
			if c == '\\' && i+1 < len(s) {
				i++
				out.WriteByte(s[i])
			} else if c == inStr {
				inStr = 0
			}
			continue
		}
		if c == '"' || c == '\'' || c == '`' {
			inStr = c
			out.WriteByte(c)
			continue
		}
		if c == '(' || c == '[' {
			// find the matching close
			depth := 0
			j := i
			in2 := byte(0)
			for ; j < len(s); j++ {
				d := s[j]
				if in2 != 0 {
					if d == '\\' {
						j++
					} else if d == in2 {
						in2 = 0
					}
					continue
				}
				if d == '"' || d == '\'' || d == '`' {
					in2 = d
				} else if d == '(' || d == '[' || d == '{' {
					depth++
				} else if d == ')' || d == ']' || d == '}' {
					depth--
					if depth == 0 {
						break
					}
				}
			}
			inner := s[i+1 : j]
			out.WriteByte(c)
			// split by top-level commas (a quantifier's binder list is not an argument list)
			parts := splitTopLevel(inner, ',')
			for k := 0; k < len(parts); k++ {
				if quantRe.MatchString(strings.TrimSpace(parts[k])) || indexTopLevelQuant(parts[k]) >= 0 {
					parts = append(parts[:k], strings.Join(parts[k:], ","))
					break
				}
			}
			for k, p := range parts {
				if k > 0 {
					out.WriteString(", ")
				}
				out.WriteString(rewriteSpec(p))
			}
			out.WriteByte(s[j])
			i = j
			continue
		}
		out.WriteByte(c)
	}
	return out.String()
}

func splitTopLevel(s string, sep byte) []string {
	var parts []string
	depth := 0
	inStr := byte(0)
	start := 0
	for i := 0; i < len(s); i++ {
		c := s[i]
		if inStr != 0 {
			if c == '\\' {
				i++
			} else if c == inStr {
				inStr = 0
			}
			continue
		}
		switch c {
		case '"', '\'', '`':
			inStr = c
		case '(', '[', '{':
			depth++
		case ')', ']', '}':
			depth--
		default:
			if c == sep && depth == 0 {
				parts = append(parts, s[start:i])
				start = i + 1
			}
		}
	}
	parts = append(parts, s[start:])
	if len(parts) == 1 && strings.TrimSpace(parts[0]) == "" {
		return nil
	}
	return parts
}

// ---------------------------------------------------------------------------
// Synthetic source generation

const prelude = `
func forall(f interface{}) bool { return true }
func exists(f interface{}) bool { return true }
func implies(a, b bool) bool { return !a || b }
func old[T any](x T) T { return x }
func fresh(x ...interface{}) bool { return true }
func array[T any](s []T) int { return 0 }
func offset[T any](s []T) int { return 0 }
func cells(s interface{}, bounds ...int) interface{} { return nil }
func mapcells(m interface{}) interface{} { return nil }
func dom[K comparable, V any](m map[K]V, k K) bool { return true }
func locs(l ...interface{}) bool { return true }
func nothing() interface{} { return nil }
func typeis[T any](x interface{}) bool { return true }
func dyntype(x interface{}) int { return 0 }
func allocated(x interface{}) bool { return true }
func ite[T any](c bool, a, b T) T { return a }
func tuple(x ...interface{}) interface{} { return nil }
func strof(b []byte) string { return "" }
func same(a, b interface{}) bool { return true }
func unchanged(l ...interface{}) bool { return true }
func call[T any](f interface{}, args ...interface{}) (r T) { return }
func callb(f interface{}, args ...interface{}) bool { return true }
func cloinv(f interface{}) bool { return true }
func postof(contract string, argsAndResults ...interface{}) bool { return true }
func captures(f interface{}) interface{} { return nil }
func visited(k interface{}) bool { return true }
func ncalls() int { return 0 }
func callarg[T any](k, i int) (r T) { return }
func callres[T any](k, i int) (r T) { return }
func lastres[T any](i int) (r T)    { return }
func lastarg[T any](i int) (r T)    { return }
func typeid[T any]() int { return 0 }
func freshid(i int) bool { return true }
func allocmark() int { return 0 }
func allocatedid(i int) bool { return true }
func maps[T any]() interface{} { return nil }
func elems[T any]() interface{} { return nil }
func fields[T any](except ...string) interface{} { return nil }
func pointee(x interface{}) interface{} { return nil }
func itercount() int { return 0 }
type rangeindex = int
var _ = []interface{}{forall, exists, implies, fresh, cells, mapcells, locs, nothing, dyntype, allocated, tuple, strof, same, unchanged, callb, visited, pointee}
`

func (c *Contract) allBinders() []Binder {
	var bs []Binder
	if c.Parent != nil {
		if c.Parent.Recv != nil {
			bs = append(bs, *c.Parent.Recv)
		}
		bs = append(bs, c.Parent.Params...)
	}
	if c.Recv != nil {
		bs = append(bs, *c.Recv)
	}
	bs = append(bs, c.Captures...)
	bs = append(bs, c.Params...)
	bs = append(bs, c.Results...)
	return bs
}

func binderList(bs []Binder) string {
	var parts []string
	for _, b := range bs {
		t := b.Type
		parts = append(parts, b.Name+" "+t)
	}
	return strings.Join(parts, ", ")
}

// emitClauseNoResults: like emitClause; with noResults the result binders are not in scope (mid-function clauses)
func (pc *PkgContracts) emitClauseNoResults(c *Contract, cl *Clause, noResults bool) {
	if !noResults {
		pc.emitClause(c, cl, nil)
		return
	}
	saved := c.Results
	c.Results = nil
	pc.emitClause(c, cl, nil)
	c.Results = saved
}

func (pc *PkgContracts) emitClause(c *Contract, cl *Clause, extra []Binder) {
	pc.clauseSeq++
	cl.FnName = fmt.Sprintf("zzc_%d", pc.clauseSeq)
	cl.Owner = c
	bs := append(c.allBinders(), extra...)
	if cl.Kind == "invariant" || (cl.Kind == "decreases" && extra != nil) {
		// results do not exist at a loop head; loop binders may reuse their names
		var nb []Binder
		isRes := map[string]bool{}
		for _, r := range c.Results {
			isRes[r.Name] = true
		}
		for _, b := range c.allBinders() {
			if !isRes[b.Name] {
				nb = append(nb, b)
			}
		}
		bs = append(nb, extra...)
	}
	// lets become additional binders whose type is inferred: emit them as
	// local variable declarations inside the function body.
	var lets strings.Builder
	for _, l := range c.Lets {
		if l == cl {
			break
		}
		fmt.Fprintf(&lets, "%s := %s; _ = %s; ", l.Label, rewriteSpec(l.Text), l.Label)
	}
	// variadic parameters are written `...T` in the header; inside they are []T
	var parts []string
	for _, b := range bs {
		t := b.Type
		if strings.HasPrefix(t, "...") {
			t = "[]" + t[3:]
		}
		parts = append(parts, b.Name+" "+t)
	}
	blist := strings.Join(parts, ", ")
	switch cl.Kind {
	case "assigns":
		txt := strings.TrimSpace(cl.Text)
		if txt == "nothing" {
			txt = ""
		}
		cl.GoText = "locs(" + rewriteSpec(txt) + ")"
		pc.Synth += fmt.Sprintf("//line %s:%d\nfunc %s(%s) bool { %sreturn %s }\n", cl.File, cl.Line, cl.FnName, blist, lets.String(), cl.GoText)
	case "decreases":
		cl.GoText = rewriteSpec(cl.Text)
		pc.Synth += fmt.Sprintf("//line %s:%d\nfunc %s(%s) int { %sreturn %s }\n", cl.File, cl.Line, cl.FnName, blist, lets.String(), cl.GoText)
	case "let", "gupdate", "gtarget":
		cl.GoText = rewriteSpec(cl.Text)
		pc.Synth += fmt.Sprintf("//line %s:%d\nfunc %s(%s) interface{} { %sreturn %s }\n", cl.File, cl.Line, cl.FnName, blist, lets.String(), cl.GoText)
	default:
		cl.GoText = rewriteSpec(cl.Text)
		pc.Synth += fmt.Sprintf("//line %s:%d\nfunc %s(%s) bool { %sreturn %s }\n", cl.File, cl.Line, cl.FnName, blist, lets.String(), cl.GoText)
	}
}

func (pc *PkgContracts) generate() {
	for _, c := range pc.Contracts {
		if c.Kind == "assume" && c.Recv == nil {
			// atomic.AddInt32 -> sync/atomic.AddInt32 with the import path of the alias
			if i := strings.Index(c.Target, "."); i > 0 && !strings.Contains(c.Target, "/") {
				for _, imp := range pc.Imports {
					if strings.HasSuffix(imp, "/"+c.Target[:i]) {
						c.Target = imp + c.Target[i:]
					}
				}
			}
		}
		if c.Kind == "assume" && c.Recv != nil && strings.HasPrefix(c.Target, "(") {
			// (*regexp.Regexp).M  ->  regexp.(*Regexp).M with the import path of the alias
			m := regexp.MustCompile(`^\((\*?)([A-Za-z_0-9]+)\.([A-Za-z_0-9]+)\)\.(.*)$`).FindStringSubmatch(c.Target)
			if m != nil {
				path := m[2]
				for _, imp := range pc.Imports {
					if imp == m[2] || strings.HasSuffix(imp, "/"+m[2]) {
						path = imp
					}
				}
				c.Target = path + ".(" + m[1] + m[3] + ")." + m[4]
			}
		}
	}
	body := pc.Synth
	pc.Synth = ""
	for _, c := range pc.Contracts {
		for _, cl := range c.Lets {
			pc.emitClause(c, cl, nil)
		}
		for _, cl := range c.Requires {
			pc.emitClause(c, cl, nil)
		}
		for _, cl := range c.Ensures {
			pc.emitClause(c, cl, nil)
		}
		for _, cl := range c.Assigns {
			pc.emitClause(c, cl, nil)
		}
		for _, cl := range c.GEntry {
			pc.emitClause(c, cl, nil)
			pc.emitClause(c, cl.Target, nil)
		}
		for _, cl := range c.Asserts {
			pc.emitClauseNoResults(c, cl, true)
		}
		for _, cl := range append(append([]*Clause{}, c.GReturn...), c.GAt...) {
			pc.emitClauseNoResults(c, cl, cl.Anchor != "")
			pc.emitClauseNoResults(c, cl.Target, cl.Anchor != "")
			if cl.Cond != nil {
				pc.emitClauseNoResults(c, cl.Cond, cl.Anchor != "")
			}
		}
		var ns []int
		for n := range c.Loops {
			ns = append(ns, n)
		}
		sort.Ints(ns)
		for _, n := range ns {
			lc := c.Loops[n]
			for _, cl := range lc.Invariants {
				pc.emitClause(c, cl, lc.Binders)
			}
			if lc.Decreases != nil {
				pc.emitClause(c, lc.Decreases, lc.Binders)
			}
		}
	}
	clauses := pc.Synth
	var hdr strings.Builder
	fmt.Fprintf(&hdr, "//go:build verif && go1.21\n\npackage %s\n\n", pc.PkgName)
	all := body + clauses + strings.Join(pc.Ghosts, "\n")
	for _, imp := range pc.Imports {
		base := imp[strings.LastIndex(imp, "/")+1:]
		if regexp.MustCompile(`\b` + regexp.QuoteMeta(base) + `\.`).MatchString(all) {
			fmt.Fprintf(&hdr, "import %q\n", imp)
		}
	}
	hdr.WriteString(prelude)
	for _, g := range pc.Ghosts {
		hdr.WriteString("var " + g + "\n")
	}
	pc.Synth = hdr.String() + body + clauses
	pc.SynthFile = filepath.Join(pc.Dir, "zz_govc_synth_verif.go")
}
