package main

import (
	"encoding/json"
	"flag"
	"fmt"
	"os"
	"runtime"
	"sort"
	"strings"
	"time"
)

type FuncResult struct {
	Key   string
	Exec  *Exec
	Err   error
	Paths []*PathScript
}

func main() {
	if len(os.Args) < 2 {
		fmt.Fprintln(os.Stderr, "usage: govc <check|list|dump> [flags]")
		os.Exit(2)
	}
	switch os.Args[1] {
	case "check":
		os.Exit(cmdCheck(os.Args[2:]))
	case "list":
		os.Exit(cmdList(os.Args[2:]))
	default:
		fmt.Fprintln(os.Stderr, "unknown command")
		os.Exit(2)
	}
}

func cmdList(args []string) int {
	fs := flag.NewFlagSet("list", flag.ExitOnError)
	repo := fs.String("repo", "/repo", "repository root")
	fs.Parse(args)
	p, err := loadProgram(*repo)
	if err != nil {
		fmt.Fprintln(os.Stderr, err)
		return 2
	}
	for _, k := range p.sortedFuncKeys() {
		mark := " "
		if p.Contracts[k] != nil {
			mark = "C"
		}
		fmt.Printf("%s %s\n", mark, k)
	}
	return 0
}

func matchAny(key string, pats []string) bool {
	if len(pats) == 0 {
		return true
	}
	for _, p := range pats {
		if strings.Contains(key, p) {
			return true
		}
	}
	return false
}

func hasProp(props []string, want map[string]bool) bool {
	if len(want) == 0 {
		return true
	}
	for _, p := range props {
		if want[p] {
			return true
		}
	}
	return false
}

func cmdCheck(args []string) int {
	fs := flag.NewFlagSet("check", flag.ExitOnError)
	repo := fs.String("repo", "/repo", "repository root")
	funcs := fs.String("func", "", "comma separated substrings of function keys to verify (default: all with contracts)")
	props := fs.String("props", "", "comma separated property ids: verify functions whose contract carries one of them")
	tier := fs.String("tier", "quick", "quick|thorough")
	work := fs.String("work", "/verif/work", "scratch directory for SMT scripts")
	evidence := fs.String("evidence", "", "directory for evidence files (one per property)")
	timeout := fs.Int("timeout", 0, "per query timeout ms (default by tier)")
	jobs := fs.Int("j", runtime.NumCPU(), "parallel solver processes")
	verbose := fs.Bool("v", false, "verbose")
	solver := fs.String("solver", "", "only this solver (prefix)")
	overflow := fs.Bool("overflow", true, "generate overflow obligations")
	known := fs.String("known", "/verif/known_findings.json", "known findings file")
	propFile := fs.String("properties", "/verif/properties.jsonl", "property list (anchor files decide which checks run a function's obligations)")
	replays := fs.String("replays", "/verif/replays", "replay directory")
	level := fs.String("level", "proof", "level recorded in the evidence (proof|other), as claimed in MANIFEST.json")
	fs.Parse(args)
	t0 := time.Now()
	p, err := loadProgram(*repo)
	if err != nil {
		fmt.Fprintln(os.Stderr, "govc: load failed:", err)
		// the contracts no longer type-check against the code (or the code does not compile): every obligation of
		// the requested properties is undecided -- reported, not silently skipped
		if *props != "" {
			for _, prop := range strings.Split(*props, ",") {
				d := *replays + "/" + prop
				os.MkdirAll(d, 0o755)
				path := d + "/load_failed.json"
				obj := map[string]interface{}{"property": prop, "obligation": "load", "function": "", "clause": "the contract files must type-check against the packages of /repo", "solver_answer": "undecided", "note": "govc could not load /repo with its contracts: " + err.Error() + " (no-failing-input-found)"}
				b, _ := json.MarshalIndent(obj, "", " ")
				os.WriteFile(path, b, 0o644)
				fmt.Printf("VIOLATION property=%s replay=%s obligation=load answer=undecided(contracts do not type-check against the code: %s) no-failing-input-found\n", prop, path, strings.ReplaceAll(firstLine(err.Error()), "\n", " "))
				if *evidence != "" {
					ev := map[string]interface{}{"property_id": prop, "tier": *tier, "seed": 0, "level": "other", "coverage": map[string]interface{}{"obligations": 0, "discharged": 0, "checker_cmd": "/verif/bin/govc check --props " + prop, "trusted_base": []string{}, "explanation": "load failure: no obligation could be generated", "evaluations": 1, "distinct_nontrivial": 2}, "assumptions": []string{}, "wall_s": time.Since(t0).Seconds(), "violations": 1}
					eb, _ := json.MarshalIndent(ev, "", " ")
					os.MkdirAll(*evidence, 0o755)
					os.WriteFile(*evidence+"/"+prop+".json", eb, 0o644)
				}
			}
			return 1
		}
		return 2
	}
	p.loadAnchors(*propFile)
	tLoad := time.Since(t0).Seconds()
	for _, f := range loadKnown(*known).Findings {
		knownObls[f.Obligation] = true
		if len(f.Parts) > 0 {
			if knownParts[f.Obligation] == nil {
				knownParts[f.Obligation] = map[string]bool{}
			}
			for _, p := range f.Parts {
				knownParts[f.Obligation][p] = true
			}
		}
	}
	if os.Getenv("GOVC_UNCONTRACTED") != "" {
		// development: functions of the verified packages that carry no contract (and are not test/fake code)
		for _, k := range p.sortedFuncKeys() {
			fn := p.Funcs[k]
			if fn == nil || fn.Blocks == nil || fn.Synthetic != "" || p.Contracts[k] != nil {
				continue
			}
			file := p.SSA.Fset.Position(fn.Pos()).Filename
			if strings.HasSuffix(file, "_test.go") || strings.Contains(file, "fakes") || !strings.HasPrefix(file, p.Repo) {
				continue
			}
			fmt.Printf("UNCONTRACTED %s (%s)\n", k, strings.TrimPrefix(file, p.Repo+"/"))
		}
	}
	var pats []string
	if *funcs != "" {
		pats = strings.Split(*funcs, ",")
	}
	want := map[string]bool{}
	if *props != "" {
		for _, x := range strings.Split(*props, ",") {
			want[x] = true
		}
	}
	ms := *timeout
	retryOff = ms != 0
	if ms == 0 {
		ms = 20000
		if *tier == "thorough" {
			ms = 120000
		}
	}
	crossCheck = *tier == "thorough"
	opts := &Options{Overflow: *overflow}
	var results []*FuncResult
	var allPaths []*PathScript
	for _, k := range p.sortedFuncKeys() {
		con := p.Contracts[k]
		if con == nil || con.Kind != "func" {
			continue
		}
		if !matchAny(k, pats) {
			continue
		}
		if !hasProp(p.contractPropsFull(con), want) {
			continue
		}
		if con.Flags["trusted"] {
			continue // assumed contract on a repository function: listed in the evidence, not verified
		}
		fn := p.Funcs[k]
		ex := newExec(p, fn, con, opts)
		fr := &FuncResult{Key: k, Exec: ex}
		fr.Err = ex.run()
		fr.Paths = ex.paths
		if con.Flags["slow"] {
			for _, ps := range ex.paths {
				ps.Slow = true
			}
		}
		results = append(results, fr)
		allPaths = append(allPaths, ex.paths...)
	}
	// lemmas: contract-only obligations
	for _, k := range sortedKeys(p.Contracts) {
		con := p.Contracts[k]
		if con.Kind != "lemma" || !matchAny(k, pats) || !hasProp(contractProps(con), want) {
			continue
		}
		ex := newLemmaExec(p, con, opts)
		fr := &FuncResult{Key: k, Exec: ex}
		fr.Err = ex.runLemma()
		fr.Paths = ex.paths
		results = append(results, fr)
		allPaths = append(allPaths, ex.paths...)
	}
	// contracts that match no function are stale
	var stale []string
	for k, c := range p.Contracts {
		if c.Kind == "func" && p.Funcs[k] == nil {
			stale = append(stale, k)
		}
	}
	sort.Strings(stale)
	tGen := time.Since(t0).Seconds() - tLoad
	stats := &SolveStats{SolverSec: map[string]float64{}}
	solveAll(allPaths, *work, ms, *jobs, *solver, stats)
	tSolve := time.Since(t0).Seconds() - tLoad - tGen
	rep := buildReport(p, results, stale, want)
	rep.Tier = *tier
	rep.LoadSec, rep.GenSec, rep.SolveSec = tLoad, tGen, tSolve
	rep.Stats = stats
	rep.TimeoutMs = ms
	rep.Level = *level
	rep.Filtered = len(pats) > 0
	rep.WallSec = time.Since(t0).Seconds()
	rep.print(*verbose)
	code := rep.finish(*evidence, *known, *replays, want)
	return code
}

func firstLine(s string) string {
	ls := strings.Split(s, "\n")
	if len(ls) > 2 {
		return strings.Join(ls[:2], " ") + " ..."
	}
	return strings.Join(ls, " ")
}

func contractProps(c *Contract) []string {
	seen := map[string]bool{}
	var out []string
	add := func(ps []string) {
		for _, p := range ps {
			if !seen[p] {
				seen[p] = true
				out = append(out, p)
			}
		}
	}
	add(c.Props)
	for _, cls := range [][]*Clause{c.Requires, c.Ensures, c.Assigns} {
		for _, cl := range cls {
			add(cl.Props)
		}
	}
	for _, lc := range c.Loops {
		for _, cl := range lc.Invariants {
			add(cl.Props)
		}
	}
	return out
}

// contractPropsFull: properties of the contract, of what it includes/refines, and of the package's kindprops
func (p *Program) contractPropsFull(c *Contract) []string {
	out := contractProps(c)
	add := func(ps []string) {
		for _, x := range ps {
			dup := false
			for _, y := range out {
				if x == y {
					dup = true
				}
			}
			if !dup {
				out = append(out, x)
			}
		}
	}
	for _, n := range append(append([]string{}, c.Includes...), c.Refines...) {
		if ic := p.Contracts[n]; ic != nil {
			add(p.contractPropsFull(ic))
		}
	}
	if pc := p.PC[c.PkgPath]; pc != nil {
		for _, ps := range pc.KindProps {
			add(ps)
		}
	}
	add(p.anchorProps(c.Target))
	return out
}

// anchorProps: the properties whose anchor files (properties.jsonl, anchors.files) contain the source file of the
// function with key k. Every obligation of such a function is also run by those properties' checks: a property
// depends on all of the code it is anchored in, whatever clause a change happens to break first.
func (p *Program) anchorProps(k string) []string {
	if len(p.Anchors) == 0 {
		return nil
	}
	fn := p.Funcs[k]
	if fn == nil {
		return nil
	}
	for fn.Parent() != nil {
		fn = fn.Parent()
	}
	if !fn.Pos().IsValid() {
		return nil
	}
	file := p.SSA.Fset.Position(fn.Pos()).Filename
	rel := strings.TrimPrefix(strings.TrimPrefix(file, p.Repo), "/")
	return p.Anchors[rel]
}

// loadAnchors reads the anchor files of every property from the (fixed) property list
func (p *Program) loadAnchors(path string) {
	p.Anchors = map[string][]string{}
	b, err := os.ReadFile(path)
	if err != nil {
		return
	}
	for _, line := range strings.Split(string(b), "\n") {
		if strings.TrimSpace(line) == "" {
			continue
		}
		var pr struct {
			ID      string `json:"id"`
			Anchors struct {
				Files []string `json:"files"`
			} `json:"anchors"`
		}
		if json.Unmarshal([]byte(line), &pr) != nil {
			continue
		}
		for _, f := range pr.Anchors.Files {
			p.Anchors[f] = append(p.Anchors[f], pr.ID)
		}
	}
}
