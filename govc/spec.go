package main

import (
	"os"
	"fmt"
	"go/ast"
	"go/constant"
	"go/token"
	"go/types"
	"regexp"
	"sort"
	"strconv"
	"strings"

	"golang.org/x/tools/go/ssa"
)

// Env: evaluation environment for a contract expression.
type Env struct {
	st      *State
	pkgPath string
	info    *types.Info
	vars    map[string]BVal
	cur     map[string]string
	old     map[string]string
	ghost   map[string]Term
	ghost0  map[string]Term
	allocLo Term // objects >= allocLo are "fresh" (allocated by this activation)
	depth   int
}

// BVal: a binder is either a value or a cell (dereferenced in the snapshot in use)
type BVal struct {
	Val  Term
	Cell *Loc
	Type types.Type
	SSA  ssa.Value // the SSA value bound (call sites), for call(f, ...) on closures
}

func (e *Env) with(name string, v Term) *Env {
	n := *e
	n.vars = make(map[string]BVal, len(e.vars)+1)
	for k, x := range e.vars {
		n.vars[k] = x
	}
	n.vars[name] = BVal{Val: v}
	return &n
}

func (e *Env) inOld() *Env {
	n := *e
	n.cur = e.old
	n.ghost = e.ghost0
	return &n
}

type specError struct{ msg string }

func (e *Env) fail(n ast.Node, format string, args ...interface{}) {
	pos := ""
	if n != nil {
		if pk := e.st.ex.prog.Pkgs[e.pkgPath]; pk != nil {
			pos = pk.Fset.Position(n.Pos()).String() + ": "
		}
	}
	panic(specError{pos + fmt.Sprintf(format, args...)})
}

func (e *Env) typeOf(x ast.Expr) types.Type {
	if tv, ok := e.info.Types[x]; ok {
		return tv.Type
	}
	if id, ok := x.(*ast.Ident); ok {
		if o := e.info.Uses[id]; o != nil {
			return o.Type()
		}
		if o := e.info.Defs[id]; o != nil {
			return o.Type()
		}
	}
	return nil
}

func (e *Env) u() *Universe { return e.st.u() }

func (e *Env) constTerm(tv types.TypeAndValue, n ast.Node) Term {
	v := tv.Value
	switch v.Kind() {
	case constant.Bool:
		return boolLit(constant.BoolVal(v))
	case constant.Int:
		s := v.ExactString()
		if strings.HasPrefix(s, "-") {
			return Term{"(- " + s[1:] + ")", SInt}
		}
		return Term{s, SInt}
	case constant.String:
		return e.st.sc.strLit(constant.StringVal(v))
	}
	e.fail(n, "unsupported constant kind %v", v.Kind())
	return Term{}
}

func (e *Env) eval(x ast.Expr) Term {
	t := e.eval0(x)
	// static typing of arrays: a slice value of type []E refers to an array of E (arr.type), whatever version
	// of the heap it was read from. Emitted for ground slice-typed terms; used by the typed regions elems[T]().
	if t.Sort == SSlice && !boundVarRe.MatchString(t.S) {
		if tv, ok := e.info.Types[x]; ok && tv.Type != nil {
			if st, ok := tv.Type.Underlying().(*types.Slice); ok {
				e.st.assumeArrType(t, st.Elem())
			}
		}
	}
	return t
}

// bound variables of generated quantifiers are named <name>!<letter><digits>; fresh constants <name>!<digits>
var boundVarRe = regexp.MustCompile(`![a-z]`)

func (e *Env) eval0(x ast.Expr) Term {
	if tv, ok := e.info.Types[x]; ok && tv.Value != nil {
		return e.constTerm(tv, x)
	}
	switch n := x.(type) {
	case *ast.ParenExpr:
		return e.eval(n.X)
	case *ast.Ident:
		return e.evalIdent(n)
	case *ast.BasicLit:
		e.fail(n, "literal without constant value")
	case *ast.UnaryExpr:
		switch n.Op {
		case token.NOT:
			return not(e.eval(n.X))
		case token.SUB:
			return app(SInt, "-", e.eval(n.X))
		case token.ADD:
			return e.eval(n.X)
		}
		e.fail(n, "unsupported unary operator %s", n.Op)
	case *ast.BinaryExpr:
		return e.evalBinary(n)
	case *ast.SelectorExpr:
		return e.evalSelector(n)
	case *ast.IndexExpr:
		return e.evalIndex(n)
	case *ast.SliceExpr:
		return e.evalSliceExpr(n)
	case *ast.StarExpr:
		p := e.eval(n.X)
		l := e.st.locOfPointer(p, e.typeOf(n.X))
		return e.st.loadLoc(e.cur, l)
	case *ast.CallExpr:
		return e.evalCall(n)
	case *ast.CompositeLit:
		t := e.typeOf(n)
		if st, ok := t.Underlying().(*types.Struct); ok {
			si := e.u().structInfoOf(t)
			e.st.sc.ensureSort(si.Sort)
			args := make([]Term, len(si.Fields))
			for i, f := range si.Fields {
				args[i] = e.u().zero(f.Sort)
			}
			for i, el := range n.Elts {
				if kv, ok := el.(*ast.KeyValueExpr); ok {
					name := kv.Key.(*ast.Ident).Name
					for j := 0; j < st.NumFields(); j++ {
						if st.Field(j).Name() == name {
							args[j] = e.eval(kv.Value)
						}
					}
				} else {
					args[i] = e.eval(el)
				}
			}
			if len(args) == 0 {
				return Term{"mk-" + string(si.Sort), si.Sort}
			}
			return app(si.Sort, "mk-"+string(si.Sort), args...)
		}
		e.fail(n, "unsupported composite literal")
	case *ast.TypeAssertExpr:
		// x.(T) in specs: value of x as T (no check)
		v := e.eval(n.X)
		t := e.typeOf(n)
		if _, isIface := t.Underlying().(*types.Interface); isIface {
			return v
		}
		return e.st.unbox(ifPayload(v), t)
	}
	e.fail(x, "unsupported spec expression %T", x)
	return Term{}
}

func (e *Env) evalIdent(n *ast.Ident) Term {
	if bv, ok := e.vars[n.Name]; ok {
		if bv.Cell != nil {
			return e.st.loadLoc(e.cur, *bv.Cell)
		}
		return bv.Val
	}
	if g, ok := e.ghost[n.Name]; ok {
		return g
	}
	switch n.Name {
	case "nil":
		t := e.typeOf(n)
		if t == nil {
			return intLit(0)
		}
		return e.u().zero(e.u().sortOf(t))
	case "true":
		return tTrue
	case "false":
		return tFalse
	}
	obj := e.info.Uses[n]
	if v, ok := obj.(*types.Var); ok && v.Parent() == v.Pkg().Scope() {
		return e.globalLoad(v)
	}
	e.fail(n, "unbound identifier %s", n.Name)
	return Term{}
}

func (e *Env) globalLoad(v *types.Var) Term {
	l := e.st.globalLoc(v)
	return e.st.loadLoc(e.cur, l)
}

func isStringType(t types.Type) bool {
	b, ok := t.Underlying().(*types.Basic)
	return ok && b.Info()&types.IsString != 0
}

func (e *Env) evalBinary(n *ast.BinaryExpr) Term {
	switch n.Op {
	case token.LAND:
		return and(e.eval(n.X), e.eval(n.Y))
	case token.LOR:
		return or(e.eval(n.X), e.eval(n.Y))
	}
	var a, b Term
	switch {
	case isNilExpr(n.Y) && !isNilExpr(n.X):
		a = e.eval(n.X)
		e.st.sc.ensureSort(a.Sort)
		b = e.u().zero(a.Sort)
	case isNilExpr(n.X) && !isNilExpr(n.Y):
		b = e.eval(n.Y)
		e.st.sc.ensureSort(b.Sort)
		a = e.u().zero(b.Sort)
	default:
		a, b = e.eval(n.X), e.eval(n.Y)
	}
	ta := e.typeOf(n.X)
	switch n.Op {
	case token.EQL, token.NEQ:
		// nil comparisons for slices: compare array id
		var r Term
		switch {
		case a.Sort == SSlice && isNilExpr(n.Y):
			r = eq(slArr(a), intLit(0))
		case b.Sort == SSlice && isNilExpr(n.X):
			r = eq(slArr(b), intLit(0))
		case a.Sort == SStr && b.S == "str_empty":
			r = eq(app(SInt, "gstr.len", a), intLit(0))
		case b.Sort == SStr && a.S == "str_empty":
			r = eq(app(SInt, "gstr.len", b), intLit(0))
		case a.Sort != b.Sort:
			// interface vs concrete comparison
			if a.Sort == SIface && b.Sort != SIface {
				b = e.st.makeIface(b, e.typeOf(n.Y))
			} else if b.Sort == SIface && a.Sort != SIface {
				a = e.st.makeIface(a, ta)
			} else {
				e.fail(n, "comparison of different sorts %s and %s", a.Sort, b.Sort)
			}
			r = eq(a, b)
		default:
			r = eq(a, b)
		}
		if n.Op == token.NEQ {
			return not(r)
		}
		return r
	case token.LSS:
		return lt(a, b)
	case token.LEQ:
		return le(a, b)
	case token.GTR:
		return gt(a, b)
	case token.GEQ:
		return ge(a, b)
	case token.ADD:
		if a.Sort == SStr {
			return app(SStr, "gstr.cat", a, b)
		}
		return add(a, b)
	case token.SUB:
		return sub(a, b)
	case token.MUL:
		return app(SInt, "*", a, b)
	case token.QUO:
		return goDiv(a, b)
	case token.REM:
		return goRem(a, b)
	}
	e.fail(n, "unsupported binary operator %s", n.Op)
	return Term{}
}

// Go's truncated division in terms of SMT's floored/euclidean div
func goDiv(a, b Term) Term {
	return T(SInt, "(let ((a!d %s) (b!d %s)) (ite (>= a!d 0) (div a!d b!d) (- (div (- a!d) b!d))))", a.S, b.S)
}
func goRem(a, b Term) Term {
	return T(SInt, "(let ((a!r %s) (b!r %s)) (ite (>= a!r 0) (mod a!r b!r) (- (mod (- a!r) b!r))))", a.S, b.S)
}

func isNilExpr(x ast.Expr) bool {
	id, ok := x.(*ast.Ident)
	return ok && id.Name == "nil"
}

func (e *Env) evalSelector(n *ast.SelectorExpr) Term {
	// qualified identifier pkg.Name
	if id, ok := n.X.(*ast.Ident); ok {
		if _, isPkg := e.info.Uses[id].(*types.PkgName); isPkg {
			obj := e.info.Uses[n.Sel]
			if v, ok := obj.(*types.Var); ok {
				return e.globalLoad(v)
			}
			e.fail(n, "unsupported qualified identifier %s.%s", id.Name, n.Sel.Name)
		}
	}
	sel := e.info.Selections[n]
	if sel == nil || sel.Kind() != types.FieldVal {
		e.fail(n, "unsupported selector %s (method values are not spec expressions)", n.Sel.Name)
	}
	base := e.eval(n.X)
	t := e.typeOf(n.X)
	return e.selectPath(n, base, t, sel.Index())
}

func (e *Env) selectPath(n ast.Node, base Term, t types.Type, index []int) Term {
	for _, idx := range index {
		if pt, ok := t.Underlying().(*types.Pointer); ok {
			si := e.u().structInfoOf(pt.Elem())
			f := e.st.fieldFam(si, idx)
			base = e.st.readFam(e.cur, f, base)
			t = si.Fields[idx].Type
			continue
		}
		si := e.u().structInfoOf(t)
		if si == nil {
			e.fail(n, "field selection on non-struct %s", t)
		}
		e.st.sc.ensureSort(si.Sort)
		base = app(si.Fields[idx].Sort, fmt.Sprintf("%s.%s", si.Sort, si.Fields[idx].Name), base)
		t = si.Fields[idx].Type
	}
	return base
}

func (e *Env) evalIndex(n *ast.IndexExpr) Term {
	t := e.typeOf(n.X)
	switch tt := t.Underlying().(type) {
	case *types.Slice:
		s := e.eval(n.X)
		i := e.eval(n.Index)
		f := e.st.elemFam(e.u().sortOf(tt.Elem()))
		return e.st.getElem(e.cur, f, s, i)
	case *types.Map:
		m := e.eval(n.X)
		k := e.eval(n.Index)
		return e.st.mapRead(e.cur, tt, m, k)
	case *types.Basic:
		if isStringType(t) {
			return app(SInt, "gstr.at", e.eval(n.X), e.eval(n.Index))
		}
	}
	// generic instantiation f[T] handled in evalCall
	e.fail(n, "unsupported index expression on %s", t)
	return Term{}
}

func (e *Env) evalSliceExpr(n *ast.SliceExpr) Term {
	t := e.typeOf(n.X)
	if _, ok := t.Underlying().(*types.Slice); !ok {
		e.fail(n, "slice expression on non-slice %s", t)
	}
	s := e.eval(n.X)
	lo := intLit(0)
	if n.Low != nil {
		lo = e.eval(n.Low)
	}
	hi := slLen(s)
	if n.High != nil {
		hi = e.eval(n.High)
	}
	cp := sub(slCap(s), lo)
	if n.Max != nil {
		cp = sub(e.eval(n.Max), lo)
	}
	r := mkSlice(slArr(s), add(slOff(s), lo), sub(hi, lo), cp)
	e.st.noteSubslice(r, s, lo)
	return r
}

func (e *Env) evalCall(n *ast.CallExpr) Term {
	// type conversion?
	if tv, ok := e.info.Types[n.Fun]; ok && tv.IsType() {
		return e.convert(e.eval(n.Args[0]), e.typeOf(n.Args[0]), tv.Type, n)
	}
	fun := n.Fun
	var typeArgs []ast.Expr
	if ix, ok := fun.(*ast.IndexExpr); ok {
		fun = ix.X
		typeArgs = []ast.Expr{ix.Index}
	}
	name := ""
	var fobj types.Object
	switch f := fun.(type) {
	case *ast.Ident:
		name = f.Name
		fobj = e.info.Uses[f]
	case *ast.SelectorExpr:
		if id, ok := f.X.(*ast.Ident); ok {
			if _, isPkg := e.info.Uses[id].(*types.PkgName); isPkg {
				fobj = e.info.Uses[f.Sel]
				name = f.Sel.Name
			}
		}
		if fobj == nil {
			return e.evalMethodCall(n, f)
		}
	}
	if _, isBuiltin := fobj.(*types.Builtin); isBuiltin {
		switch name {
		case "len":
			a := e.eval(n.Args[0])
			switch a.Sort {
			case SSlice:
				return slLen(a)
			case SStr:
				return app(SInt, "gstr.len", a)
			case SInt: // map
				mt := e.typeOf(n.Args[0]).Underlying().(*types.Map)
				_, _, l := e.st.mapFamsT(mt)
				return e.st.readFam(e.cur, l, a)
			}
		case "cap":
			return slCap(e.eval(n.Args[0]))
		}
		e.fail(n, "unsupported builtin %s in spec", name)
	}
	// spec builtins from the prelude (same package) or pure spec functions
	if fobj != nil && fobj.Pkg() != nil {
		if fn, ok := fobj.(*types.Func); ok {
			key := fn.Pkg().Path() + "." + fn.Name()
			if pf, ok := e.st.ex.prog.Pures[key]; ok {
				return e.callPure(n, pf)
			}
		}
	}
	switch name {
	case "forall", "exists":
		fl, ok := n.Args[0].(*ast.FuncLit)
		if !ok {
			e.fail(n, "%s needs a function literal", name)
		}
		ne := e
		var binders []string
		for _, fld := range fl.Type.Params.List {
			s := e.u().sortOf(e.typeOf(fld.Type))
			e.st.sc.ensureSort(s)
			for _, nm := range fld.Names {
				e.st.sc.nfresh++
				bn := fmt.Sprintf("%s!q%d", nm.Name, e.st.sc.nfresh)
				ne = ne.with(nm.Name, Term{bn, s})
				binders = append(binders, fmt.Sprintf("(%s %s)", bn, s))
			}
		}
		ret := fl.Body.List[len(fl.Body.List)-1].(*ast.ReturnStmt).Results[0]
		body := ne.eval(ret)
		return T(SBool, "(%s (%s) %s)", name, strings.Join(binders, " "), body.S)
	case "implies":
		return implies(e.eval(n.Args[0]), e.eval(n.Args[1]))
	case "ite":
		return ite(e.eval(n.Args[0]), e.eval(n.Args[1]), e.eval(n.Args[2]))
	case "old":
		return e.inOld().eval(n.Args[0])
	case "array":
		return slArr(e.eval(n.Args[0]))
	case "offset":
		return slOff(e.eval(n.Args[0]))
	case "fresh":
		var cs []Term
		for _, a := range n.Args {
			v := e.eval(a)
			cs = append(cs, e.isFresh(v, e.typeOf(a), a))
		}
		return and(cs...)
	case "allocated":
		v := e.eval(n.Args[0])
		return lt(e.idOf(v, e.typeOf(n.Args[0]), n), e.st.alloc)
	case "dom":
		mt := e.typeOf(n.Args[0]).Underlying().(*types.Map)
		d, _, _ := e.st.mapFamsT(mt)
		m := e.eval(n.Args[0])
		return e.st.readFam(e.cur, d, m, e.eval(n.Args[1]))
	case "typeis":
		v := e.eval(n.Args[0])
		t := e.typeOf(typeArgs[0])
		if _, isIface := t.Underlying().(*types.Interface); isIface {
			return e.st.implementsPred(ifType(v), t)
		}
		return eq(ifType(v), intLit(int64(e.u().typeID(t))))
	case "dyntype":
		return ifType(e.eval(n.Args[0]))
	case "typeid":
		return intLit(int64(e.u().typeID(e.typeOf(typeArgs[0]))))
	case "strof":
		return e.st.stringOfBytes(e.cur, e.eval(n.Args[0]))
	case "same":
		var a, b Term
		switch {
		case isNilExpr(n.Args[1]):
			a = e.eval(n.Args[0])
			e.st.sc.ensureSort(a.Sort)
			b = e.u().zero(a.Sort)
		case isNilExpr(n.Args[0]):
			b = e.eval(n.Args[1])
			e.st.sc.ensureSort(b.Sort)
			a = e.u().zero(b.Sort)
		default:
			a, b = e.eval(n.Args[0]), e.eval(n.Args[1])
			if a.Sort == SIface && b.Sort != SIface {
				b = e.st.makeIface(b, e.typeOf(n.Args[1]))
			} else if b.Sort == SIface && a.Sort != SIface {
				a = e.st.makeIface(a, e.typeOf(n.Args[0]))
			}
		}
		return eq(a, b)
	case "visited":
		v, ok := e.ghost["$visited"]
		if !ok {
			e.fail(n, "visited() is only defined in invariants of map-range loops")
		}
		return app(SBool, v.S, e.eval(n.Args[0]))
	case "call", "callb":
		// call(f, args...): the value a pure closure returns
		var bv BVal
		if id, ok := n.Args[0].(*ast.Ident); ok {
			bv = e.vars[id.Name]
		}
		var args []Term
		for _, a := range n.Args[1:] {
			args = append(args, e.eval(a))
		}
		rs := SBool
		if name == "call" {
			if len(typeArgs) == 0 {
				e.fail(n, "call[T](f, args...): the result type T is needed")
			}
			rs = e.u().sortOf(e.typeOf(typeArgs[0]))
		}
		return e.st.ex.applyPureClosure(e, n, bv, args, e.eval(n.Args[0]), rs)
	case "postof":
		// postof("pkg.(T).M", receiver, args..., results...): the conjunction of the postconditions of the named
		// contract for these arguments and results, read in the current state (used by two-run lemmas over
		// functions that assign nothing)
		tv, ok := e.info.Types[n.Args[0]]
		if !ok || tv.Value == nil || tv.Value.Kind() != constant.String {
			e.fail(n, "postof: the contract name must be a string constant")
		}
		want := constant.StringVal(tv.Value)
		var pc *Contract
		for _, k := range sortedKeys(e.st.ex.prog.Contracts) {
			if k == want || strings.HasSuffix(k, "/"+want) {
				pc = e.st.ex.prog.Contracts[k]
			}
		}
		if pc == nil {
			e.fail(n, "postof: no contract named %s", want)
		}
		var bs []Binder
		if pc.Recv != nil {
			bs = append(bs, *pc.Recv)
		}
		bs = append(bs, pc.Params...)
		bs = append(bs, pc.Results...)
		if len(bs) != len(n.Args)-1 {
			e.fail(n, "postof(%s): %d values given, the contract has %d parameters and results", want, len(n.Args)-1, len(bs))
		}
		pe := &Env{st: e.st, pkgPath: pc.PkgPath, info: e.st.ex.prog.infoFor(pc.PkgPath), vars: map[string]BVal{}, cur: e.cur, old: e.cur, ghost: e.ghost, ghost0: e.ghost, allocLo: e.allocLo}
		for i, b := range bs {
			pe.vars[b.Name] = BVal{Val: e.eval(n.Args[i+1])}
		}
		for _, l := range pc.Lets {
			pe.vars[l.Label] = pe.evalLetSafe(l)
		}
		var cs []Term
		for _, cl := range pc.Ensures {
			if mentionsCallLog(cl.Expr) {
				continue
			}
			cs = append(cs, pe.eval(cl.Expr))
		}
		return and(cs...)
	case "cloinv":
		// cloinv(f): the invariant a closure keeps on its captured variables (`ensures [inv] E` of its contract);
		// for a function value that is not statically known an uninterpreted predicate of the function value
		// and the current contents of the captured-variable cells
		var bv BVal
		if id, ok := n.Args[0].(*ast.Ident); ok {
			bv = e.vars[id.Name]
		}
		if bv.SSA != nil {
			if fc, bindings := e.st.ex.closureContract(bv.SSA); fc != nil && (len(fc.Captures) == 0 || bindings != nil) {
				for _, cl := range fc.Ensures {
					if cl.Label == "inv" {
						fe := e.st.ex.closureEnv(e.st, fc, bindings, e)
						return fe.eval(cl.Expr)
					}
				}
			}
		}
		sym := "cloinv"
		for _, cs := range e.st.ex.prog.captureSorts() {
			fam := e.st.cellFam(cs)
			sym += "@" + sanitize(e.cur[fam.Name])
		}
		e.st.sc.declFun(sym, []Sort{SInt}, SBool)
		return app(SBool, sym, e.eval(n.Args[0]))
	case "ncalls":
		if e.st.callsLost {
			return e.st.sc.fresh("ncalls_unknown", SInt) // after a loop the number of logged calls is not known
		}
		return intLit(int64(len(e.st.calls)))
	case "callarg", "callres":
		if e.st.callsLost {
			return e.st.sc.fresh("nocall", e.u().sortOf(e.typeOf(n)))
		}
		kv, ok1 := e.info.Types[n.Args[0]]
		iv, ok2 := e.info.Types[n.Args[1]]
		if !ok1 || !ok2 || kv.Value == nil || iv.Value == nil {
			e.fail(n, "%s(k, i): k and i must be constants", name)
		}
		k64, _ := constant.Int64Val(kv.Value)
		i64, _ := constant.Int64Val(iv.Value)
		k, i := int(k64), int(i64)
		if k < 1 || k > len(e.st.calls) {
			// no such call on this path: the value is unconstrained
			t := e.typeOf(n)
			return e.st.sc.fresh("nocall", e.u().sortOf(t))
		}
		rec := e.st.calls[k-1]
		list := rec.Args
		if name == "callres" {
			list = rec.Results
		}
		if i < 0 || i >= len(list) {
			// the k-th logged call on this path is a different callee with fewer values: unconstrained
			return e.st.sc.fresh("nocall", e.u().sortOf(e.typeOf(n)))
		}
		if len(typeArgs) > 0 {
			if ws := e.u().sortOf(e.typeOf(typeArgs[0])); ws != list[i].Sort {
				return e.st.sc.fresh("nocall", ws) // a different callee on this path
			}
		}
		return list[i]
	case "lastres", "lastarg":
		// result / argument i of the call that was executed last (for ghost_at / assert_at anchored at a call)
		iv, ok := e.info.Types[n.Args[0]]
		if !ok || iv.Value == nil {
			e.fail(n, "%s(i): i must be a constant", name)
		}
		i64, _ := constant.Int64Val(iv.Value)
		if e.st.lastCall == nil {
			e.fail(n, "%s(): no call has been executed on this path", name)
		}
		list := e.st.lastCall.Results
		if name == "lastarg" {
			list = e.st.lastCall.Args
		}
		if int(i64) < 0 || int(i64) >= len(list) {
			e.fail(n, "%s(%d): index out of range (the call has %d)", name, i64, len(list))
		}
		if len(typeArgs) > 0 {
			if ws := e.u().sortOf(e.typeOf(typeArgs[0])); ws != list[i64].Sort {
				e.fail(n, "STALE-CONTRACT: %s(%d) is a %s value, the clause expects %s (the anchored call is no longer the one the clause was written for)", name, i64, list[i64].Sort, ws)
			}
		}
		return list[i64]
	case "allocmark":
		return e.st.alloc
	case "allocatedid":
		return lt(e.eval(n.Args[0]), e.st.alloc)
	case "freshid":
		return ge(e.eval(n.Args[0]), e.allocLo)
	case "itercount":
		v, ok := e.ghost["$itercount"]
		if !ok {
			e.fail(n, "itercount() is only defined in invariants of map-range loops")
		}
		return v
	case "locs", "cells", "mapcells", "nothing", "unchanged":
		e.fail(n, "%s is only allowed in assigns clauses", name)
	}
	e.fail(n, "unsupported call in spec: %s", types.ExprString(n.Fun))
	return Term{}
}

func (e *Env) idOf(v Term, t types.Type, n ast.Node) Term {
	switch t.Underlying().(type) {
	case *types.Slice:
		return slArr(v)
	case *types.Pointer, *types.Map, *types.Signature:
		return v
	case *types.Interface:
		return ifPayload(v)
	}
	e.fail(n, "value of type %s has no object identity", t)
	return Term{}
}

func (e *Env) isFresh(v Term, t types.Type, n ast.Node) Term {
	return ge(e.idOf(v, t, n), e.allocLo)
}

func (e *Env) callPure(n *ast.CallExpr, pf *PureFunc) Term {
	if e.depth > 40 {
		e.fail(n, "pure function expansion too deep (recursive spec functions need `rec`)")
	}
	decl := pf.Decl
	info := e.st.ex.prog.infoFor(pf.PkgPath)
	ne := &Env{st: e.st, pkgPath: pf.PkgPath, info: info, vars: map[string]BVal{}, cur: e.cur, old: e.old, ghost: e.ghost, ghost0: e.ghost0, allocLo: e.allocLo, depth: e.depth + 1}
	i := 0
	fsig, _ := e.info.TypeOf(n.Fun).(*types.Signature)
	for _, fld := range decl.Type.Params.List {
		for _, nm := range fld.Names {
			v := e.eval(n.Args[i])
			if fsig != nil && i < fsig.Params().Len() {
				if _, isI := fsig.Params().At(i).Type().Underlying().(*types.Interface); isI && v.Sort != SIface {
					v = e.st.makeIface(v, e.typeOf(n.Args[i]))
				}
			}
			ne.vars[nm.Name] = BVal{Val: v}
			i++
		}
	}
	if pf.GhostFun {
		f, args := ne.ghostFunFamily(pf, decl)
		return e.st.readFam(e.cur, f, args...)
	}
	if pf.Virtual {
		var sorts []Sort
		var args []Term
		for _, fld := range decl.Type.Params.List {
			for _, nm := range fld.Names {
				v := ne.vars[nm.Name].Val
				sorts = append(sorts, v.Sort)
				args = append(args, v)
			}
		}
		if len(sorts) == 0 || sorts[0] != SIface {
			e.fail(n, "virtual function %s: first parameter must be an interface value", pf.Name)
		}
		rs := e.u().sortOf(fsig.Results().At(0).Type())
		return app(rs, e.st.methodSymbol(e, pf.Name, sorts, rs, fsig.Params().At(0).Type()), args...)
	}
	if pf.Abstract {
		sig := e.info.TypeOf(n.Fun).(*types.Signature)
		var sorts []Sort
		var args []Term
		i := 0
		for _, fld := range decl.Type.Params.List {
			for _, nm := range fld.Names {
				v := ne.vars[nm.Name].Val
				sorts = append(sorts, v.Sort)
				args = append(args, v)
				i++
			}
		}
		rs := e.u().sortOf(sig.Results().At(0).Type())
		name := "U." + sanitize(strings.TrimPrefix(pf.PkgPath, modPath+"/")) + "." + pf.Name
		// an abstract function of a slice depends on the slice's contents:
		// one function symbol per version of the element family
		for k := 0; k < sig.Params().Len(); k++ {
			if stp, ok := sig.Params().At(k).Type().Underlying().(*types.Slice); ok {
				f := e.st.elemFam(e.u().sortOf(stp.Elem()))
				name += "." + e.st.symIn(e.cur, f.Name)
			}
		}
		e.st.sc.declFun(name, sorts, rs)
		return app(rs, name, args...)
	}
	if pf.Rec {
		return ne.callRec(n, pf)
	}
	ret := decl.Body.List[len(decl.Body.List)-1].(*ast.ReturnStmt).Results[0]
	if pf.Opaque {
		// a named predicate/function with a definitional axiom triggered on its applications:
		// gives quantified clauses that mention it a usable pattern
		sig := fsig
		name := "P." + sanitize(strings.TrimPrefix(pf.PkgPath, modPath+"/")) + "." + pf.Name
		var sorts []Sort
		var args []Term
		k := 0
		for _, fld := range decl.Type.Params.List {
			for _, nm := range fld.Names {
				v := ne.vars[nm.Name].Val
				sorts = append(sorts, v.Sort)
				args = append(args, v)
				if stp, ok := sig.Params().At(k).Type().Underlying().(*types.Slice); ok {
					f := e.st.elemFam(e.u().sortOf(stp.Elem()))
					name += "." + e.st.symIn(e.cur, f.Name)
				}
				k++
			}
		}
		rs := e.u().sortOf(sig.Results().At(0).Type())
		if !e.st.sc.declared["fun:"+name] {
			e.st.sc.declFun(name, sorts, rs)
			de := *ne
			de.vars = map[string]BVal{}
			var binders []string
			var bvs []Term
			k = 0
			for _, fld := range decl.Type.Params.List {
				for _, nm := range fld.Names {
					e.st.sc.nfresh++
					bv := Term{fmt.Sprintf("%s!d%d", nm.Name, e.st.sc.nfresh), sorts[k]}
					de.vars[nm.Name] = BVal{Val: bv}
					binders = append(binders, fmt.Sprintf("(%s %s)", bv.S, bv.Sort))
					bvs = append(bvs, bv)
					k++
				}
			}
			body := (&de).eval(ret)
			lhs := app(rs, name, bvs...)
			e.st.sc.emit("(assert (forall (%s) (! (= %s %s) :pattern (%s))))", strings.Join(binders, " "), lhs.S, body.S, lhs.S)
		}
		return app(rs, name, args...)
	}
	return ne.eval(ret)
}

func (e *Env) convert(v Term, from, to types.Type, n ast.Node) Term {
	ts := e.u().sortOf(to)
	if v.Sort == ts {
		if ts == SInt {
			// in specs conversions between integer types are mathematical
			// except explicit narrowing, which wraps
			if fb, ok := from.Underlying().(*types.Basic); ok && fb.Info()&types.IsInteger != 0 {
				if needsWrap(from, to) {
					return wrapInt(v, to)
				}
			}
		}
		return v
	}
	if ts == SIface {
		if b, ok := from.(*types.Basic); ok && b.Kind() == types.UntypedNil {
			return e.u().zero(SIface)
		}
		return e.st.makeIface(v, from)
	}
	if ts == SStr && v.Sort == SSlice {
		return e.st.stringOfBytes(e.cur, v)
	}
	if ts == SStr && v.Sort == SInt {
		return e.st.runeString(v)
	}
	e.fail(n, "unsupported conversion %s -> %s", from, to)
	return Term{}
}

func needsWrap(from, to types.Type) bool {
	fb, fs, ok1 := intBits(from)
	tb, tsn, ok2 := intBits(to)
	if !ok1 || !ok2 {
		return false
	}
	if fs == tsn {
		return tb < fb
	}
	if fs && !tsn {
		return true
	}
	// unsigned -> signed
	return tb <= fb
}

// evalMethodCall: x.M(args) in a spec. Supported: methods with a `pure`
// spec twin declared as  pure func T_M(recv, args)  (looked up by name), and
// interface methods declared pure (uninterpreted, state-versioned).
func (e *Env) evalMethodCall(n *ast.CallExpr, f *ast.SelectorExpr) Term {
	sel := e.info.Selections[f]
	if sel == nil {
		e.fail(n, "unsupported call")
	}
	recvT := sel.Recv()
	m := sel.Obj().(*types.Func)
	return e.st.pureMethod(e, n, f, recvT, m)
}

// ---------------------------------------------------------------------------
// assigns clauses: list of location sets

type LocSet struct {
	Fam   string
	Obj   Term // object / array / map id
	Lo    Term // LElem ranges: absolute [Lo,Hi)
	Hi    Term
	Ranged bool
	All   bool // whole family for that object (maps)
	Region bool // every object of the family (type-level footprint)
	Ghost  bool // a ghost variable
	Guard  *Term // the location is part of the footprint only when the guard holds
	ArrType int  // elems[T]() regions: only arrays whose element type is T
	Owner  *Term // captures(f): every cell of the family owned by (captured in) the closure value
	Desc  string
}

// member: is object o part of this location set (object-level, ignoring ranges)
func (ls LocSet) member(o Term) Term {
	if ls.Owner != nil {
		return app(SBool, "clo.owns", *ls.Owner, o)
	}
	return eq(o, ls.Obj)
}

// evalAssignsClause: location sets of an assigns clause (plain, or `like` another contract)
func (e *Env) evalAssignsClause(cl *Clause) []LocSet {
	if cl.Like == "" {
		return e.evalAssigns(cl.Expr)
	}
	prog := e.st.ex.prog
	oc := prog.Contracts[cl.Like]
	if oc == nil {
		e.fail(cl.Expr, "assigns like %s: no such contract", cl.Like)
	}
	call := cl.Expr.(*ast.CallExpr)
	bs := []Binder{}
	if oc.Recv != nil {
		bs = append(bs, *oc.Recv)
	}
	bs = append(bs, oc.Params...)
	if len(call.Args) != len(bs) {
		e.fail(cl.Expr, "assigns like %s: %d arguments for %d parameters", cl.Like, len(call.Args), len(bs))
	}
	oe := &Env{st: e.st, pkgPath: oc.PkgPath, info: prog.infoFor(oc.PkgPath), vars: map[string]BVal{}, cur: e.cur, old: e.old, ghost: e.ghost, ghost0: e.ghost0, allocLo: e.allocLo}
	for i, b := range bs {
		var v Term
		if isNilExpr(call.Args[i]) {
			t := e.st.ex.typeOfBinder(oc, b)
			s := e.u().sortOf(t)
			e.st.sc.ensureSort(s)
			v = e.u().zero(s)
		} else {
			v = e.eval(call.Args[i])
		}
		oe.vars[b.Name] = BVal{Val: v}
	}
	var out []LocSet
	for _, ocl := range oc.Assigns {
		out = append(out, oe.evalAssignsClause(ocl)...)
	}
	return out
}

func (e *Env) evalAssigns(x ast.Expr) []LocSet {
	call, ok := x.(*ast.CallExpr)
	if !ok {
		e.fail(x, "assigns clause must be a list of locations")
	}
	var out []LocSet
	for _, a := range call.Args {
		out = append(out, e.evalLocSet(a)...)
	}
	return out
}

func (e *Env) evalLocSet(a ast.Expr) []LocSet {
	switch n := a.(type) {
	case *ast.ParenExpr:
		return e.evalLocSet(n.X)
	case *ast.SelectorExpr:
		if v, ok := e.info.Uses[n.Sel].(*types.Var); ok && v.Pkg() != nil && v.Parent() == v.Pkg().Scope() {
			return e.globalLocSets(v)
		}
		if pf := e.st.ex.prog.ghostFunOf(e.info, n); pf != nil {
			break
		}
		sel := e.info.Selections[n]
		if sel == nil || sel.Kind() != types.FieldVal {
			e.fail(n, "bad location")
		}
		idx := sel.Index()
		base := e.eval(n.X)
		t := e.typeOf(n.X)
		// walk to the last pointer
		for len(idx) > 1 {
			base = e.selectPath(n, base, t, idx[:1])
			if pt, ok := t.Underlying().(*types.Pointer); ok {
				t = e.u().structInfoOf(pt.Elem()).Fields[idx[0]].Type
			} else {
				t = e.u().structInfoOf(t).Fields[idx[0]].Type
			}
			idx = idx[1:]
		}
		pt, ok := t.Underlying().(*types.Pointer)
		if !ok {
			e.fail(n, "location %s: base is not a pointer", types.ExprString(n))
		}
		si := e.u().structInfoOf(pt.Elem())
		f := e.st.fieldFam(si, idx[0])
		return []LocSet{{Fam: f.Name, Obj: base, Desc: types.ExprString(n)}}
	case *ast.StarExpr:
		p := e.eval(n.X)
		l := e.st.locOfPointer(p, e.typeOf(n.X))
		if l.Kind == LObj {
			si := e.u().structInfoOf(l.Type)
			var out []LocSet
			for i := range si.Fields {
				out = append(out, LocSet{Fam: e.st.fieldFam(si, i).Name, Obj: p, Desc: types.ExprString(n)})
			}
			return out
		}
		return []LocSet{{Fam: l.Fam, Obj: p, Desc: types.ExprString(n)}}
	case *ast.IndexExpr:
		t := e.typeOf(n.X)
		if st, ok := t.Underlying().(*types.Slice); ok {
			s := e.eval(n.X)
			i := e.eval(n.Index)
			f := e.st.elemFam(e.u().sortOf(st.Elem()))
			return []LocSet{{Fam: f.Name, Obj: slArr(s), Lo: add(slOff(s), i), Hi: add(add(slOff(s), i), intLit(1)), Ranged: true, Desc: types.ExprString(n)}}
		}
	case *ast.CallExpr:
		name := ""
		if id, ok := n.Fun.(*ast.Ident); ok {
			name = id.Name
		}
		if ix, ok := n.Fun.(*ast.IndexExpr); ok {
			if id, ok := ix.X.(*ast.Ident); ok && id.Name == "fields" {
				out := e.regionOf(e.typeOf(ix.Index), n)
				if len(n.Args) > 0 {
					// fields[T]("a", "b"): every field except those named
					skip := map[string]bool{}
					for _, a := range n.Args {
						if bl, ok := a.(*ast.BasicLit); ok {
							skip[strings.Trim(bl.Value, "\"")] = true
						}
					}
					var kept []LocSet
					for _, ls := range out {
						nm := ls.Fam[strings.LastIndex(ls.Fam, ".")+1:]
						if !skip[nm] {
							kept = append(kept, ls)
						}
					}
					out = kept
				}
				return out
			}
			if id, ok := ix.X.(*ast.Ident); ok && id.Name == "elems" {
				stp, ok := e.typeOf(ix.Index).Underlying().(*types.Slice)
				if !ok {
					e.fail(n, "elems[T](): T must be a slice type")
				}
				f := e.st.elemFam(e.u().sortOf(stp.Elem()))
				return []LocSet{{Fam: f.Name, Region: true, Obj: intLit(0), ArrType: e.u().typeID(stp.Elem()), Desc: "elems[" + stp.String() + "]"}}
			}
			if id, ok := ix.X.(*ast.Ident); ok && id.Name == "maps" {
				mt, ok := e.typeOf(ix.Index).Underlying().(*types.Map)
				if !ok {
					e.fail(n, "maps[T](): T must be a map type")
				}
				d, v, l := e.st.mapFamsT(mt)
				ds := "maps[" + mt.String() + "]"
				return []LocSet{{Fam: d.Name, Region: true, Obj: intLit(0), Desc: ds}, {Fam: v.Name, Region: true, Obj: intLit(0), Desc: ds}, {Fam: l.Name, Region: true, Obj: intLit(0), Desc: ds}}
			}
		}
		switch name {
		case "nothing":
			return nil
		case "captures":
			// the variables captured by a function value (cells of every sort some closure of the program captures)
			f := e.eval(n.Args[0])
			e.st.declOwns()
			var out []LocSet
			for _, cs := range e.st.ex.prog.captureSorts() {
				fam := e.st.cellFam(cs)
				fv := f
				out = append(out, LocSet{Fam: fam.Name, Obj: intLit(0), Owner: &fv, Desc: types.ExprString(n)})
			}
			// ... and the maps its contract names in `assigns mapcells(...)` (owned since it was made)
			for _, mt := range e.st.ex.prog.closureMapTypes() {
				d, v, l := e.st.mapFamsT(mt)
				for _, fam := range []*Family{d, v, l} {
					fv := f
					out = append(out, LocSet{Fam: fam.Name, Obj: intLit(0), Owner: &fv, All: true, Desc: types.ExprString(n)})
				}
			}
			return out
		case "ite":
			// conditional footprint
			c := e.eval(n.Args[0])
			var out []LocSet
			for _, ls := range e.evalLocSet(n.Args[1]) {
				ls.Guard = andGuard(ls.Guard, c)
				out = append(out, ls)
			}
			for _, ls := range e.evalLocSet(n.Args[2]) {
				ls.Guard = andGuard(ls.Guard, not(c))
				out = append(out, ls)
			}
			return out
		case "cells":
			t := e.typeOf(n.Args[0])
			stp, ok := t.Underlying().(*types.Slice)
			if !ok {
				e.fail(n, "cells() needs a slice")
			}
			s := e.eval(n.Args[0])
			f := e.st.elemFam(e.u().sortOf(stp.Elem()))
			lo, hi := slOff(s), add(slOff(s), slCap(s))
			if len(n.Args) == 3 {
				lo, hi = add(slOff(s), e.eval(n.Args[1])), add(slOff(s), e.eval(n.Args[2]))
			}
			return []LocSet{{Fam: f.Name, Obj: slArr(s), Lo: lo, Hi: hi, Ranged: true, Desc: types.ExprString(n)}}
		case "mapcells":
			mt, ok := e.typeOf(n.Args[0]).Underlying().(*types.Map)
			if !ok {
				e.fail(n, "mapcells() needs a map")
			}
			m := e.eval(n.Args[0])
			d, v, l := e.st.mapFamsT(mt)
			ds := types.ExprString(n)
			return []LocSet{{Fam: d.Name, Obj: m, All: true, Desc: ds}, {Fam: v.Name, Obj: m, All: true, Desc: ds}, {Fam: l.Name, Obj: m, All: true, Desc: ds}}
		case "old":
			return e.inOld().evalLocSet(n.Args[0])
		case "pointee":
			// the memory behind a pointer that travels inside an interface value:
			// the pointee type is read off the (statically known) dynamic type
			v := e.eval(n.Args[0])
			m := regexp.MustCompile(`^\(mk-iface (\d+) (.*)\)$`).FindStringSubmatch(v.S)
			if m == nil {
				e.fail(n, "pointee(): dynamic type of the argument is not statically known")
			}
			tid, _ := strconv.Atoi(m[1])
			pt := e.u().typeByID[tid]
			if _, ok := pt.Underlying().(*types.Pointer); !ok {
				e.fail(n, "pointee(): argument holds a %s, not a pointer", pt)
			}
			p := Term{m[2], SInt}
			l := e.st.locOfPointer(p, pt)
			if l.Kind == LObj {
				si := e.u().structInfoOf(l.Type)
				var out []LocSet
				for i := range si.Fields {
					out = append(out, LocSet{Fam: e.st.fieldFam(si, i).Name, Obj: p, Desc: "pointee"})
				}
				return out
			}
			return []LocSet{{Fam: l.Fam, Obj: p, Desc: "pointee"}}
		}
	case *ast.Ident:
		// a captured variable (cell binder) or a global
		if bv, ok := e.vars[n.Name]; ok && bv.Cell != nil {
			l := *bv.Cell
			if l.Kind == LObj {
				si := e.u().structInfoOf(l.Type)
				var out []LocSet
				for i := range si.Fields {
					out = append(out, LocSet{Fam: e.st.fieldFam(si, i).Name, Obj: l.Obj, Desc: n.Name})
				}
				return out
			}
			return []LocSet{{Fam: l.Fam, Obj: l.Obj, Desc: n.Name}}
		}
		if v, ok := e.info.Uses[n].(*types.Var); ok && v.Parent() == v.Pkg().Scope() {
			return e.globalLocSets(v)
		}
	}
	if se, ok := a.(*ast.SelectorExpr); ok {
		if v, ok := e.info.Uses[se.Sel].(*types.Var); ok && v.Parent() == v.Pkg().Scope() {
			return e.globalLocSets(v)
		}
	}
	if pf := e.st.ex.prog.ghostFunOf(e.info, a); pf != nil {
		obj := e.st.ex.prog.Pkgs[pf.PkgPath].Types.Scope().Lookup(pf.FnName)
		sig := obj.Type().(*types.Signature)
		var sorts []Sort
		for k := 0; k < sig.Params().Len(); k++ {
			sorts = append(sorts, e.u().sortOf(sig.Params().At(k).Type()))
		}
		name := "GF." + sanitize(strings.TrimPrefix(pf.PkgPath, modPath+"/")) + "." + pf.Name
		f := e.st.family(name, sorts, e.u().sortOf(sig.Results().At(0).Type()))
		return []LocSet{{Fam: f.Name, Region: true, Ghost: true, Obj: intLit(0), Desc: pf.Name}}
	}
	e.fail(a, "unsupported location expression %s", types.ExprString(a))
	return nil
}

// pureMethod: x.M(args) inside a contract. For a concrete receiver type with a
// `method` definition the definition is expanded in the snapshot in use. For an
// interface receiver the value is M.<name>@<versions>(x, args): one function
// symbol per combination of versions of the heap families the definitions
// read, linked by one axiom per `method` definition (selected by the dynamic
// type) and, for dynamic types without a definition, to the abstract family
// X.<name> that stands for foreign implementations.
func (st *State) pureMethod(e *Env, n *ast.CallExpr, f *ast.SelectorExpr, recvT types.Type, m *types.Func) Term {
	prog := st.ex.prog
	recv := e.eval(f.X)
	var args []Term
	for _, a := range n.Args {
		args = append(args, e.eval(a))
	}
	if _, isIface := recvT.Underlying().(*types.Interface); !isIface {
		pf := prog.methodDef(recvT, m.Name())
		if pf == nil {
			e.fail(n, "method %s.%s has no `method` definition usable in contracts", recvT, m.Name())
		}
		return st.expandMethodDef(e, pf, append([]Term{recv}, args...))
	}
	sig := m.Type().(*types.Signature)
	if sig.Results().Len() != 1 {
		e.fail(n, "pure interface method %s must have exactly one result", m.Name())
	}
	rs := st.u().sortOf(sig.Results().At(0).Type())
	sorts := []Sort{SIface}
	for _, a := range args {
		sorts = append(sorts, a.Sort)
	}
	// the interface that declares the method (for embedded interfaces: the embedded one)
	declIface := recvT
	if r := sig.Recv(); r != nil {
		if _, ok := r.Type().Underlying().(*types.Interface); ok {
			declIface = r.Type()
		}
	}
	return app(rs, st.methodSymbol(e, m.Name(), sorts, rs, declIface), append([]Term{recv}, args...)...)
}

func (st *State) methodSymbol(e *Env, name string, sorts []Sort, rs Sort, ifaceT types.Type) string {
	prog := st.ex.prog
	st.nestedM = true
	rel := prog.relevantFams(st.ex, name, sorts, rs, ifaceT)
	var vers []string
	verOf := map[string]string{}
	for _, fam := range rel {
		sym := st.symIn(e.cur, fam)
		v := sym[strings.LastIndex(sym, "@")+1:]
		vers = append(vers, v)
		verOf[fam] = v
	}
	sym := "M." + name + "." + shortTypeName(ifaceT)
	for _, a := range sorts[1:] {
		sym += "." + string(a)
	}
	sym += "/" + string(rs)
	if len(vers) > 0 {
		sym += "@" + strings.Join(vers, ".")
	}
	if st.sc.declared["fun:"+sym] {
		return sym
	}
	st.sc.declFun(sym, sorts, rs)
	base := "M." + name + "." + shortTypeName(ifaceT) + "/" + string(rs) + fmt.Sprint(sorts)
	prev := st.msyms[base]
	type bridgeT struct {
		tid  int
		fams []string
		ok   bool
	}
	var bridges []bridgeT
	var known []Term
	st.sc.nfresh++
	iv := Term{fmt.Sprintf("i!l%d", st.sc.nfresh), SIface}
	for _, k := range sortedKeys(prog.Pures) {
		pf := prog.Pures[k]
		if pf.Method != name || pf.RecvType == "" || !prog.defMatches(st.u(), pf, sorts, rs) {
			continue
		}
		rt := prog.recvTypeOf(pf)
		if rt == nil || !implementsIface(rt, ifaceT) {
			continue
		}
		tid := st.u().typeID(rt)
		known = append(known, eq(ifType(iv), intLit(int64(tid))))
		st.emitMethodLink(e, pf, sym, rs, rt, tid)
		df, nested := prog.defFamilies(st.ex, pf, rs, rt)
		bridges = append(bridges, bridgeT{tid: tid, fams: df, ok: !nested})
	}
	// version bridges: receivers whose definition reads nothing that changed between an earlier
	// symbol of this method and the new one have the same value under both (a consequence of the
	// link axioms, stated directly so that the solver need not unfold the definitions)
	{
		argB := []string{fmt.Sprintf("(%s Iface)", iv.S)}
		callA := []Term{iv}
		for _, s := range sorts[1:] {
			st.sc.nfresh++
			a := Term{fmt.Sprintf("a!b%d", st.sc.nfresh), s}
			argB = append(argB, fmt.Sprintf("(%s %s)", a.S, s))
			callA = append(callA, a)
		}
		start := 0
		if len(prev) > 2 {
			start = len(prev) - 2
		}
		for _, pv := range prev[start:] {
			var conds []Term
			for _, b := range bridges {
				if !b.ok {
					continue
				}
				same := true
				for _, f := range b.fams {
					if pv.vers[f] != verOf[f] {
						same = false
					}
				}
				if same {
					conds = append(conds, eq(ifType(iv), intLit(int64(b.tid))))
				}
			}
			// dynamic types without a definition: same default / same foreign family version
			{
				xn := "X." + name + "." + shortTypeName(ifaceT) + "." + string(rs)
				for _, a := range sorts[1:] {
					xn += "." + string(a)
				}
				if pv.vers[xn] == verOf[xn] && len(known) > 0 {
					conds = append(conds, not(or(known...)))
				}
			}
			if len(conds) == 0 {
				continue
			}
			l, r := app(rs, sym, callA...), app(rs, pv.sym, callA...)
			st.sc.emit("(assert (forall (%s) (! (=> %s (= %s %s)) :pattern (%s))))", strings.Join(argB, " "), or(conds...).S, l.S, r.S, l.S)
		}
		// term chain: an application of the new symbol makes the same application of its predecessor a
		// ground term (through an otherwise unconstrained predicate), so that facts stated over the earlier
		// heap (quantified hypotheses triggered by the earlier symbol) are instantiated by E-matching without
		// depending on the solver's search order. Nothing is assumed: touch.* is uninterpreted.
		if len(prev) > 0 && os.Getenv("GOVC_NOTOUCH") == "" {
			tn := "touch." + string(rs)
			st.sc.declFun(tn, []Sort{rs}, SBool)
			l, r := app(rs, sym, callA...), app(rs, prev[len(prev)-1].sym, callA...)
			st.sc.emit("(assert (forall (%s) (! (%s %s) :pattern (%s))))", strings.Join(argB, " "), tn, r.S, l.S)
		}
		if st.msyms == nil {
			st.msyms = map[string][]msymRec{}
		}
		st.msyms[base] = append(prev, msymRec{sym: sym, vers: verOf})
	}
	// dynamic types without a definition: the declared default of a virtual function, if any
	var dflt *PureFunc
	for _, k := range sortedKeys(prog.Pures) {
		if pf := prog.Pures[k]; pf.Virtual && pf.HasDefault && pf.Name == name {
			dflt = pf
		}
	}
	if dflt != nil {
		binders := []string{fmt.Sprintf("(%s Iface)", iv.S)}
		callArgs := []Term{iv}
		for _, s := range sorts[1:] {
			st.sc.nfresh++
			a := Term{fmt.Sprintf("a!l%d", st.sc.nfresh), s}
			binders = append(binders, fmt.Sprintf("(%s %s)", a.S, s))
			callArgs = append(callArgs, a)
		}
		body := st.expandMethodDef(e, dflt, callArgs)
		lhs := app(rs, sym, callArgs...)
		st.sc.emit("(assert (forall (%s) (! (=> (not %s) (= %s %s)) :pattern (%s))))", strings.Join(binders, " "), or(known...).S, lhs.S, body.S, lhs.S)
		return sym
	}
	// foreign implementations
	xname := "X." + name + "." + shortTypeName(ifaceT) + "." + string(rs)
	for _, a := range sorts[1:] {
		xname += "." + string(a)
	}
	xf := st.family(xname, sorts, rs)
	binders := []string{fmt.Sprintf("(%s Iface)", iv.S)}
	callArgs := []Term{iv}
	for k, s := range sorts[1:] {
		st.sc.nfresh++
		a := Term{fmt.Sprintf("a!l%d", st.sc.nfresh), s}
		binders = append(binders, fmt.Sprintf("(%s %s)", a.S, s))
		callArgs = append(callArgs, a)
		_ = k
	}
	lhs := app(rs, sym, callArgs...)
	st.sc.emit("(assert (forall (%s) (! (=> (not %s) (= %s %s)) :pattern (%s))))", strings.Join(binders, " "), or(known...).S, lhs.S, app(rs, st.symIn(e.cur, xf.Name), callArgs...).S, lhs.S)
	return sym
}

// relevantFams: the heap families on which the value of pure method `name` depends
// defFamilies: the heap families the definition pf reads; nested=true when the body itself calls a
// pure interface method (then it may depend on everything that method depends on)
func (p *Program) defFamilies(ex *Exec, pf *PureFunc, rs Sort, rt types.Type) (fams []string, nested bool) {
	if p.defFamCache == nil {
		p.defFamCache = map[string][]string{}
		p.defNested = map[string]bool{}
	}
	key := pf.PkgPath + "." + pf.FnName
	if f, ok := p.defFamCache[key]; ok {
		return f, p.defNested[key]
	}
	if p.relBusy == nil {
		p.relBusy = map[string]bool{}
	}
	if p.relBusy["def:"+key] {
		return nil, true
	}
	p.relBusy["def:"+key] = true
	defer delete(p.relBusy, "def:"+key)
	sc := &State{ex: ex, sc: newScript(p.Universe), vals: map[ssa.Value]Term{}, locs: map[ssa.Value]Loc{}, tuples: map[ssa.Value][]Term{}, iters: map[ssa.Value]*MapIter{}, heap: map[string]string{}, fams: map[string]*Family{}, ghost: map[string]Term{}, sliceBase: map[string]sliceBaseInfo{}}
	sc.entry = map[string]string{}
	sc.alloc0 = sc.sc.fresh("alloc0", SInt)
	sc.alloc = sc.alloc0
	se := &Env{st: sc, vars: map[string]BVal{}, cur: sc.heap, old: sc.heap, allocLo: sc.alloc0}
	func() {
		defer func() { recover() }()
		sc.emitMethodLink(se, pf, "M.scratch", rs, rt, 1)
	}()
	for fam := range sc.fams {
		fams = append(fams, fam)
	}
	sort.Strings(fams)
	p.defFamCache[key] = fams
	p.defNested[key] = sc.nestedM
	return fams, sc.nestedM
}

func implementsIface(t types.Type, ifaceT types.Type) bool {
	it, ok := ifaceT.Underlying().(*types.Interface)
	if !ok {
		return true
	}
	return types.Implements(t, it)
}

func (p *Program) relevantFams(ex *Exec, name string, sorts []Sort, rs Sort, ifaceT types.Type) []string {
	if p.relCache == nil {
		p.relCache = map[string][]string{}
		p.relBusy = map[string]bool{}
	}
	ck := name + "[" + shortTypeName(ifaceT) + "]:" + string(rs)
	for _, a := range sorts[1:] {
		ck += "." + string(a)
	}
	if r, ok := p.relCache[ck]; ok {
		return r
	}
	if p.relBusy[ck] {
		return nil
	}
	p.relBusy[ck] = true
	sc := &State{ex: ex, sc: newScript(p.Universe), vals: map[ssa.Value]Term{}, locs: map[ssa.Value]Loc{}, tuples: map[ssa.Value][]Term{}, iters: map[ssa.Value]*MapIter{}, heap: map[string]string{}, fams: map[string]*Family{}, ghost: map[string]Term{}, sliceBase: map[string]sliceBaseInfo{}}
	sc.entry = map[string]string{}
	sc.alloc0 = sc.sc.fresh("alloc0", SInt)
	sc.alloc = sc.alloc0
	se := &Env{st: sc, vars: map[string]BVal{}, cur: sc.heap, old: sc.heap, allocLo: sc.alloc0}
	func() {
		defer func() { recover() }()
		for _, k := range sortedKeys(p.Pures) {
			pf := p.Pures[k]
			if pf.Method != name || pf.RecvType == "" || !p.defMatches(p.Universe, pf, sorts, rs) {
				continue
			}
			rt := p.recvTypeOf(pf)
			if rt == nil || !implementsIface(rt, ifaceT) {
				continue
			}
			sc.emitMethodLink(se, pf, "M.scratch", rs, rt, 1)
		}
	}()
	xn := "X." + name + "." + shortTypeName(ifaceT) + "." + string(rs)
	for _, a := range sorts[1:] {
		xn += "." + string(a)
	}
	set := map[string]bool{xn: true}
	for fam := range sc.fams {
		set[fam] = true
	}
	var out []string
	for fam := range set {
		out = append(out, fam)
	}
	sort.Strings(out)
	delete(p.relBusy, ck)
	p.relCache[ck] = out
	return out
}

func (p *Program) methodDef(recvT types.Type, name string) *PureFunc {
	for _, k := range sortedKeys(p.Pures) {
		pf := p.Pures[k]
		if pf.Method != name || pf.RecvType == "" {
			continue
		}
		if t := p.recvTypeOf(pf); t != nil && types.Identical(t, recvT) {
			return pf
		}
	}
	return nil
}

// defMatches: the method definition has the parameter sorts of the call
func (p *Program) defMatches(u *Universe, pf *PureFunc, sorts []Sort, rs Sort) bool {
	obj := p.Pkgs[pf.PkgPath].Types.Scope().Lookup(pf.FnName)
	if obj == nil {
		return false
	}
	sig := obj.Type().(*types.Signature)
	if sig.Params().Len() != len(sorts) || sig.Results().Len() != 1 || u.sortOf(sig.Results().At(0).Type()) != rs {
		return false
	}
	for k := 1; k < sig.Params().Len(); k++ {
		if u.sortOf(sig.Params().At(k).Type()) != sorts[k] {
			return false
		}
	}
	return true
}

func (p *Program) recvTypeOf(pf *PureFunc) types.Type {
	pk := p.Pkgs[pf.PkgPath]
	obj := pk.Types.Scope().Lookup(pf.FnName)
	if obj == nil {
		return nil
	}
	return obj.Type().(*types.Signature).Params().At(0).Type()
}

func (st *State) expandMethodDef(e *Env, pf *PureFunc, args []Term) Term {
	info := st.ex.prog.infoFor(pf.PkgPath)
	ne := &Env{st: st, pkgPath: pf.PkgPath, info: info, vars: map[string]BVal{}, cur: e.cur, old: e.old, ghost: e.ghost, ghost0: e.ghost0, allocLo: e.allocLo, depth: e.depth + 1}
	i := 0
	for _, fld := range pf.Decl.Type.Params.List {
		for _, nm := range fld.Names {
			ne.vars[nm.Name] = BVal{Val: args[i]}
			i++
		}
	}
	ret := pf.Decl.Body.List[len(pf.Decl.Body.List)-1].(*ast.ReturnStmt).Results[0]
	return ne.eval(ret)
}

func (st *State) emitMethodLink(e *Env, pf *PureFunc, fname string, rs Sort, rt types.Type, tid int) {
	s := st.u().sortOf(rt)
	st.sc.ensureSort(s)
	st.sc.nfresh++
	iv := Term{fmt.Sprintf("i!k%d", st.sc.nfresh), SIface}
	recv := st.unbox(ifPayload(iv), rt)
	binders := []string{fmt.Sprintf("(%s Iface)", iv.S)}
	args := []Term{recv}
	callArgs := []Term{iv}
	sig := st.ex.prog.Pkgs[pf.PkgPath].Types.Scope().Lookup(pf.FnName).Type().(*types.Signature)
	for k := 1; k < sig.Params().Len(); k++ {
		ps := st.u().sortOf(sig.Params().At(k).Type())
		st.sc.nfresh++
		pv := Term{fmt.Sprintf("a!k%d", st.sc.nfresh), ps}
		binders = append(binders, fmt.Sprintf("(%s %s)", pv.S, ps))
		args = append(args, pv)
		callArgs = append(callArgs, pv)
	}
	body := st.expandMethodDef(e, pf, args)
	if body.Sort != rs && body.S == "0" {
		body = st.u().zero(rs) // untyped nil as the definition of an interface/slice-valued method
	}
	lhs := app(rs, fname, callArgs...)
	st.sc.emit("(assert (forall (%s) (! (=> (= (i-type %s) %d) (= %s %s)) :pattern (%s))))", strings.Join(binders, " "), iv.S, tid, lhs.S, body.S, lhs.S)
}

func (e *Env) callRec(n *ast.CallExpr, pf *PureFunc) Term {
	e.fail(n, "rec spec functions are not supported yet")
	return Term{}
}

// regionOf: type-level footprint. For a struct type: every field of every
// object of that type; for an interface type: the same for every struct type
// of the loaded program whose pointer type implements the interface.
func (e *Env) regionOf(t types.Type, n ast.Node) []LocSet {
	var out []LocSet
	addStruct := func(nt types.Type) {
		si := e.u().structInfoOf(nt)
		if si == nil {
			return
		}
		for i := range si.Fields {
			out = append(out, LocSet{Fam: e.st.fieldFam(si, i).Name, Region: true, Obj: intLit(0), Desc: "fields[" + t.String() + "]"})
		}
	}
	if it, ok := t.Underlying().(*types.Interface); ok {
		prog := e.st.ex.prog
		for _, pp := range sortedKeys(prog.Pkgs) {
			pk := prog.Pkgs[pp]
			if !strings.HasPrefix(pp, modPath) || strings.HasSuffix(pp, "fakes") {
				continue
			}
			sc := pk.Types.Scope()
			for _, nm := range sc.Names() {
				tn, ok := sc.Lookup(nm).(*types.TypeName)
				if !ok {
					continue
				}
				if _, isStruct := tn.Type().Underlying().(*types.Struct); !isStruct {
					continue
				}
				if types.Implements(types.NewPointer(tn.Type()), it) || types.Implements(tn.Type(), it) {
					addStruct(tn.Type())
				}
			}
		}
		return out
	}
	if pt, ok := t.Underlying().(*types.Pointer); ok {
		t = pt.Elem()
	}
	addStruct(t)
	if len(out) == 0 {
		e.fail(n, "fields[%s](): not a struct or interface type", t)
	}
	return out
}

func isGhostName(n string) bool { return strings.HasPrefix(n, "Ghost") || strings.HasPrefix(n, "ghost") }

func (e *Env) globalLocSets(v *types.Var) []LocSet {
	l := e.st.globalLoc(v)
	g := isGhostName(v.Name())
	if l.Kind == LObj {
		si := e.u().structInfoOf(l.Type)
		var out []LocSet
		for i := range si.Fields {
			out = append(out, LocSet{Fam: e.st.fieldFam(si, i).Name, Obj: l.Obj, Desc: v.Name(), Ghost: g})
		}
		return out
	}
	return []LocSet{{Fam: l.Fam, Obj: l.Obj, Desc: v.Name(), Ghost: g}}
}

func andGuard(g *Term, c Term) *Term {
	if g == nil {
		return &c
	}
	t := and(*g, c)
	return &t
}

// ghostFunFamily: the heap family behind a `ghostfun` and the argument terms bound in this environment
func (e *Env) ghostFunFamily(pf *PureFunc, decl *ast.FuncDecl) (*Family, []Term) {
	var sorts []Sort
	var args []Term
	for _, fld := range decl.Type.Params.List {
		for _, nm := range fld.Names {
			v := e.vars[nm.Name].Val
			sorts = append(sorts, v.Sort)
			args = append(args, v)
		}
	}
	obj := e.st.ex.prog.Pkgs[pf.PkgPath].Types.Scope().Lookup(pf.FnName)
	rs := e.u().sortOf(obj.Type().(*types.Signature).Results().At(0).Type())
	name := "GF." + sanitize(strings.TrimPrefix(pf.PkgPath, modPath+"/")) + "." + pf.Name
	return e.st.family(name, sorts, rs), args
}

func (p *Program) ghostFunOf(info *types.Info, fun ast.Expr) *PureFunc {
	var obj types.Object
	switch f := fun.(type) {
	case *ast.Ident:
		obj = info.Uses[f]
	case *ast.SelectorExpr:
		obj = info.Uses[f.Sel]
	}
	fn, ok := obj.(*types.Func)
	if !ok || fn.Pkg() == nil {
		return nil
	}
	if pf, ok := p.Pures[fn.Pkg().Path()+"."+fn.Name()]; ok && pf.GhostFun {
		return pf
	}
	return nil
}
