package main

import (
	"fmt"
	"go/types"
	"sort"
	"strings"

	"golang.org/x/tools/go/ssa"
)

// Heap families. The heap is a collection of named function families; each
// has a current version (an SMT function symbol). The initial version is an
// uninterpreted function, later versions are define-fun macros over earlier
// ones (stores) or fresh functions constrained by a frame (calls, loops).

type Family struct {
	Name string
	Args []Sort
	Res  Sort
	Type types.Type // Go type of the values, when known (field type, map element type)
}

type LocKind int

const (
	LObj   LocKind = iota // pointer to a struct object: fields in H families
	LCell                 // pointer to a non-struct cell: C family
	LField                // address of a field (with optional nested path)
	LElem                 // address of an array element
	LArr                  // pointer to an array object (new [N]T)
)

type Loc struct {
	Kind LocKind
	Fam  string // LCell/LField/LElem: family name
	Obj  Term   // object / array id
	Idx  Term   // LElem: absolute index
	Sl   *Term  // LElem through a slice: the slice value ...
	Rel  *Term  // ... and the index relative to it (reads go through G)
	Path []PathSel
	Type types.Type // pointee type
	N    int64      // LArr: array length
}

type PathSel struct {
	Struct Sort
	Field  string
	Sort   Sort
	Index  int
}

type MapIter struct {
	Map     Term
	KSort   Sort
	VSort   Sort
	Visited string // function symbol K -> Bool
	MapType *types.Map
	Count   Term   // number of keys produced so far
	StartDom string // version of the domain family when the iteration started
}

type State struct {
	ex       *Exec
	sc       *Script
	vals     map[ssa.Value]Term
	locs     map[ssa.Value]Loc
	tuples   map[ssa.Value][]Term
	iters    map[ssa.Value]*MapIter
	heap     map[string]string
	fams     map[string]*Family
	alloc    Term
	alloc0   Term
	entry    map[string]string // heap snapshot at function entry
	ghost    map[string]Term   // ghost variables current values
	ghost0   map[string]Term
	visited  map[*ssa.BasicBlock]int
	trail    []string // block trail for diagnostics
	dead     bool
	nobl     int
	loopSeen map[*ssa.BasicBlock]bool
	sliceBase map[string]sliceBaseInfo
	lastCall  *CallRec
	strConv   map[string]Term // arrays made by []byte(s): array id -> s (for the extensionality hint of strof)
	nestedM   bool                 // scratch states: a nested pure interface method call was evaluated
	msyms     map[string][]msymRec // pure-method symbols declared so far, per method
	calls     []CallRec // dynamic (interface / function-value) calls made so far on this path
	callsLost bool      // a loop was entered: the call log is no longer exact
	inl       *inlFrame // innermost helper being executed in place (inline.go)
}

// inlining: g is being executed in place on this path (no recursive inlining)
func (st *State) inlining(g *ssa.Function) bool {
	for fr := st.inl; fr != nil; fr = fr.parent {
		if fr.fn == g {
			return true
		}
	}
	return false
}

type msymRec struct {
	sym  string
	vers map[string]string
}

// CallRec: one dynamically dispatched call made by this activation
// (State.lastCall: the call executed last, for lastres/lastarg in anchored ghost updates and assertions)
type CallRec struct {
	Args    []Term
	Results []Term
	Target  string
}

func (st *State) clone() *State {
	n := &State{ex: st.ex, sc: st.sc.clone(), alloc: st.alloc, alloc0: st.alloc0, dead: st.dead, nobl: st.nobl, inl: st.inl}
	n.vals = make(map[ssa.Value]Term, len(st.vals))
	for k, v := range st.vals {
		n.vals[k] = v
	}
	n.locs = make(map[ssa.Value]Loc, len(st.locs))
	for k, v := range st.locs {
		n.locs[k] = v
	}
	n.tuples = make(map[ssa.Value][]Term, len(st.tuples))
	for k, v := range st.tuples {
		n.tuples[k] = v
	}
	n.iters = make(map[ssa.Value]*MapIter, len(st.iters))
	for k, v := range st.iters {
		c := *v
		n.iters[k] = &c
	}
	n.heap = copyMap(st.heap)
	n.entry = st.entry
	n.fams = make(map[string]*Family, len(st.fams))
	for k, v := range st.fams {
		n.fams[k] = v
	}
	n.ghost = make(map[string]Term, len(st.ghost))
	for k, v := range st.ghost {
		n.ghost[k] = v
	}
	n.ghost0 = st.ghost0
	n.visited = make(map[*ssa.BasicBlock]int, len(st.visited))
	for k, v := range st.visited {
		n.visited[k] = v
	}
	n.loopSeen = make(map[*ssa.BasicBlock]bool, len(st.loopSeen))
	for k, v := range st.loopSeen {
		n.loopSeen[k] = v
	}
	n.trail = append([]string(nil), st.trail...)
	n.msyms = make(map[string][]msymRec, len(st.msyms))
	for k, v := range st.msyms {
		n.msyms[k] = append([]msymRec(nil), v...)
	}
	n.calls = append([]CallRec(nil), st.calls...)
	n.callsLost = st.callsLost
	n.lastCall = st.lastCall
	n.strConv = make(map[string]Term, len(st.strConv))
	for k, v := range st.strConv {
		n.strConv[k] = v
	}
	n.sliceBase = make(map[string]sliceBaseInfo, len(st.sliceBase))
	for k, v := range st.sliceBase {
		n.sliceBase[k] = v
	}
	return n
}

// cloneForBranch: the clone starts a new path; checks already emitted belong
// to the original path and are stripped from the clone's script.
func (st *State) cloneForBranch() *State {
	n := st.clone()
	var lines []string
	for _, l := range n.sc.lines {
		if strings.HasPrefix(l, "(push 1)") {
			continue
		}
		lines = append(lines, l)
	}
	n.sc.lines = lines
	n.nobl = 0
	return n
}

func copyMap(m map[string]string) map[string]string {
	n := make(map[string]string, len(m))
	for k, v := range m {
		n[k] = v
	}
	return n
}

// ---------------------------------------------------------------------------
// family access

func (st *State) family(name string, args []Sort, res Sort) *Family {
	if f, ok := st.fams[name]; ok {
		return f
	}
	f := &Family{Name: name, Args: args, Res: res}
	st.fams[name] = f
	sym := sanitize(name) + "@0"
	st.sc.declFun(sym, args, res)
	if strings.HasPrefix(name, "E.") {
		// element families are keyed by (slice value, relative index); the
		// initial version is tied to an array-level function so that slices
		// sharing an array agree on its cells
		base := "A." + sanitize(name[2:])
		st.sc.declFun(base, []Sort{SInt, SInt}, res)
		st.sc.emit("(assert (forall ((a Int) (o Int) (i Int)) (! (= (%[1]s a o i) (%[2]s a (+ o i))) :pattern ((%[1]s a o i)))))", sym, base)
	}
	st.heap[name] = sym
	if st.entry != nil {
		if _, ok := st.entry[name]; !ok {
			st.entry[name] = sym
		}
	}
	return f
}

// symbol of family in the given snapshot (falls back to initial version)
func (st *State) symIn(snap map[string]string, fam string) string {
	if s, ok := snap[fam]; ok {
		return s
	}
	return sanitize(fam) + "@0"
}

func (st *State) newVersion(fam string) string {
	st.sc.nfresh++
	return fmt.Sprintf("%s@%d", sanitize(fam), st.sc.nfresh)
}

func famField(structSort Sort, field string) string { return "H." + string(structSort) + "." + field }
func famCell(s Sort) string                         { return "C." + string(s) }
func famElem(s Sort) string                         { return "E." + string(s) }
func famMapDom(k, v Sort) string                    { return "MD." + string(k) + "." + string(v) }
func famMapVal(k, v Sort) string                    { return "MV." + string(k) + "." + string(v) }
func famMapLen(k, v Sort) string                    { return "ML." + string(k) + "." + string(v) }

func (st *State) fieldFam(si *StructInfo, i int) *Family {
	name := famField(si.Sort, si.Fields[i].Name)
	_, existed := st.fams[name]
	f := st.family(name, []Sort{SInt}, si.Fields[i].Sort)
	f.Type = si.Fields[i].Type
	if !existed {
		// entry-heap closure: what the heap holds at function entry refers to objects that exist at entry
		sym := sanitize(name) + "@0"
		switch si.Fields[i].Type.Underlying().(type) {
		case *types.Pointer, *types.Map, *types.Signature:
			st.sc.emit("(assert (forall ((o Int)) (! (=> (< o %[2]s) (< (%[1]s o) %[2]s)) :pattern ((%[1]s o)))))", sym, st.alloc0.S)
		case *types.Slice:
			st.sc.emit("(assert (forall ((o Int)) (! (=> (< o %[2]s) (< (s-arr (%[1]s o)) %[2]s)) :pattern ((%[1]s o)))))", sym, st.alloc0.S)
		case *types.Interface:
			st.ifaceClosureG("((o Int))", "("+sym+" o)", "(< o "+st.alloc0.S+")")
		case *types.Struct:
			// one level of nesting: slices / pointers / maps inside a struct-valued field
			nsi := st.u().structInfoOf(si.Fields[i].Type)
			st.sc.ensureSort(nsi.Sort)
			for _, nf := range nsi.Fields {
				sel := fmt.Sprintf("(%s.%s (%s o))", nsi.Sort, nf.Name, sym)
				switch nf.Type.Underlying().(type) {
				case *types.Pointer, *types.Map, *types.Signature:
					st.sc.emit("(assert (forall ((o Int)) (! (=> (< o %[2]s) (< %[1]s %[2]s)) :pattern ((%[3]s o)))))", sel, st.alloc0.S, sym)
				case *types.Slice:
					st.sc.emit("(assert (forall ((o Int)) (! (=> (< o %[2]s) (< (s-arr %[1]s) %[2]s)) :pattern ((%[3]s o)))))", sel, st.alloc0.S, sym)
				}
			}
		}
	}
	return f
}

// ifaceClosure: entry-heap closure for interface-typed locations: what an interface value of the
// initial heap holds (a pointer, map, function or slice) was allocated before function entry.
func (st *State) ifaceClosure(binders, read string) { st.ifaceClosureG(binders, read, "true") }

func (st *State) ifaceClosureG(binders, read, guard string) {
	ids := make([]int, 0, len(st.u().typeByID))
	for id := range st.u().typeByID {
		ids = append(ids, id)
	}
	sort.Ints(ids)
	var ptr []string
	var parts []string
	for _, id := range ids {
		ct := st.u().typeByID[id]
		switch ct.Underlying().(type) {
		case *types.Pointer, *types.Map, *types.Signature:
			ptr = append(ptr, fmt.Sprintf("(= (i-type %s) %d)", read, id))
		case *types.Slice:
			_, ub := st.boxFns(SSlice)
			parts = append(parts, fmt.Sprintf("(=> (= (i-type %s) %d) (< (s-arr (%s (i-val %s))) %s))", read, id, ub, read, st.alloc0.S))
		}
	}
	if len(ptr) > 0 {
		parts = append(parts, fmt.Sprintf("(=> (or %s) (< (i-val %s) %s))", strings.Join(ptr, " "), read, st.alloc0.S))
	}
	if len(parts) == 0 {
		return
	}
	st.sc.emit("(assert (forall %s (! (=> %s (and %s)) :pattern (%s))))", binders, guard, strings.Join(parts, " "), read)
}
func (st *State) declArrType() {
	if st.sc.declared["fun:arr.type"] {
		return
	}
	st.sc.declFun("arr.type", []Sort{SInt}, SInt)
	st.sc.emit("(assert (= (arr.type 0) 0))")
}

// assumeArrType: the array behind a slice value of static type []E is an array of E
func (st *State) assumeArrType(v Term, elem types.Type) {
	st.declArrType()
	key := "arrtype:" + v.S
	if st.sc.declared[key] {
		return
	}
	st.sc.declared[key] = true
	st.sc.emit("(assert (or (= (s-arr %s) 0) (= (arr.type (s-arr %s)) %d)))", v.S, v.S, st.u().typeID(elem))
}

// declOwns: clo.owns(f, o) -- cell o holds a variable captured by the function value f. Captured variables
// are heap cells, never package-level or ghost variables (whose addresses are the small constants).
func (st *State) declOwns() {
	if st.sc.declared["fun:clo.owns"] {
		return
	}
	st.sc.declFun("clo.owns", []Sort{SInt, SInt}, SBool)
	st.sc.emit("(assert (forall ((f Int) (o Int)) (! (=> (clo.owns f o) (> o 100000)) :pattern ((clo.owns f o)))))")
}

func (st *State) cellFam(s Sort) *Family {
	name := famCell(s)
	_, existed := st.fams[name]
	f := st.family(name, []Sort{SInt}, s)
	if !existed && s == SSlice {
		sym := sanitize(name) + "@0"
		st.sc.emit("(assert (forall ((o Int)) (! (=> (< o %[2]s) (< (s-arr (%[1]s o)) %[2]s)) :pattern ((%[1]s o)))))", sym, st.alloc0.S)
	}
	if !existed && s == SIface {
		st.ifaceClosureG("((o Int))", "("+sanitize(name)+"@0 o)", "(< o "+st.alloc0.S+")")
	}
	return f
}
func (st *State) elemFam(s Sort) *Family {
	name := famElem(s)
	_, existed := st.fams[name]
	f := st.family(name, []Sort{SInt, SInt, SInt}, s)
	if !existed && s == SSlice {
		sym := sanitize(name) + "@0"
		st.sc.emit("(assert (forall ((a Int) (o Int) (i Int)) (! (=> (< a %[2]s) (< (s-arr (%[1]s a o i)) %[2]s)) :pattern ((%[1]s a o i)))))", sym, st.alloc0.S)
	}
	if !existed && s == SIface {
		st.ifaceClosureG("((a Int) (o Int) (i Int))", "("+sanitize(name)+"@0 a o i)", "(< a "+st.alloc0.S+")")
	}
	return f
}
// map families are keyed by the Go map type (not by sorts): a type-level
// footprint such as maps[ResultCache]() must not touch unrelated int->int maps
func (st *State) mapFamsT(mt *types.Map) (dom, val, ln *Family) {
	k, v := st.u().sortOf(mt.Key()), st.u().sortOf(mt.Elem())
	tn := shortTypeName(mt)
	_, existed := st.fams["MV."+tn]
	dom, val, ln = st.family("MD."+tn, []Sort{SInt, k}, SBool), st.family("MV."+tn, []Sort{SInt, k}, v), st.family("ML."+tn, []Sort{SInt}, SInt)
	val.Type = mt.Elem()
	if !existed {
		// the nil map has an empty domain and length 0
		st.sc.emit("(assert (forall ((k %[2]s)) (! (not (%[1]s 0 k)) :pattern ((%[1]s 0 k)))))", sanitize("MD."+tn)+"@0", k)
		st.sc.emit("(assert (= (%s 0) 0))", sanitize("ML."+tn)+"@0")
		sym := sanitize("MV."+tn) + "@0"
		switch mt.Elem().Underlying().(type) {
		case *types.Pointer, *types.Map, *types.Signature:
			st.sc.emit("(assert (forall ((m Int) (k %[3]s)) (! (=> (< m %[2]s) (< (%[1]s m k) %[2]s)) :pattern ((%[1]s m k)))))", sym, st.alloc0.S, k)
		case *types.Interface:
			st.ifaceClosureG(fmt.Sprintf("((m Int) (k %s))", k), "("+sym+" m k)", "(< m "+st.alloc0.S+")")
		}
	}
	return
}

// read family at snapshot
func (st *State) readFam(snap map[string]string, f *Family, args ...Term) Term {
	return app(f.Res, st.symIn(snap, f.Name), args...)
}

// getElem reads element i of slice s in snapshot snap. Element families are
// keyed by the slice value and the index relative to it, so quantified
// contract clauses over s[i] get arithmetic-free patterns; aliasing between
// slices over one array is resolved in the body of each version's
// definitional axiom. A slice obtained by re-slicing a known slice is read
// through its base (translator-level normalisation).
func (st *State) getElem(snap map[string]string, f *Family, s, i Term) Term {
	if b, ok := st.sliceBase[s.S]; ok {
		return app(f.Res, st.symIn(snap, f.Name), slArr(b.Base), slOff(b.Base), add(b.Delta, i))
	}
	return app(f.Res, st.symIn(snap, f.Name), slArr(s), slOff(s), i)
}

// elemParams: array id and absolute index of the definitional-axiom parameters of an element family
func elemAbs(p []Term) (arr, abs Term) { return p[0], add(p[1], p[2]) }

type sliceBaseInfo struct {
	Base  Term
	Delta Term
}

// updateElems: cells [lo,hi) (absolute) of array arr get valAt(abs); guard may restrict further.
func (st *State) updateElems(f *Family, arr, lo, hi Term, guard Term, valAt func(abs Term) Term) {
	st.updateFamWhere(f, func(p []Term) Term {
		a, abs := elemAbs(p)
		return and(guard, eq(a, arr), le(lo, abs), lt(abs, hi))
	}, func(p []Term) Term { _, abs := elemAbs(p); return valAt(abs) })
}

// writeFam: new version with one point updated
func (st *State) writeFam(f *Family, args []Term, val Term) {
	st.updateFamWhere(f, func(p []Term) Term {
		var conds []Term
		for i := range p {
			conds = append(conds, eq(p[i], args[i]))
		}
		return and(conds...)
	}, func(p []Term) Term { return val })
	st.sc.assert(eq(app(f.Res, st.heap[f.Name], args...), val))
}

// updateFamWhere: F'(x..) = ite(cond(x..), newval(x..), F(x..)). The new
// version is a declared function with a definitional axiom triggered on its
// own applications (not a define-fun macro: macros expand to ite terms, which
// cannot occur in the patterns of quantified contract clauses).
func (st *State) updateFamWhere(f *Family, cond func(params []Term) Term, val func(params []Term) Term) {
	old := st.heap[f.Name]
	nv := st.newVersion(f.Name)
	var params []Term
	var binders []string
	for i, a := range f.Args {
		p := Term{fmt.Sprintf("x%d", i), a}
		params = append(params, p)
		binders = append(binders, fmt.Sprintf("(%s %s)", p.S, a))
	}
	body := ite(cond(params), val(params), app(f.Res, old, params...))
	st.sc.declFun(nv, f.Args, f.Res)
	lhs := app(f.Res, nv, params...)
	// two alternative triggers: a read of the new version, or a read of the
	// previous version (so facts found for old-state terms carry forward)
	st.sc.emit("(assert (forall (%s) (! (= %s %s) :pattern (%s) :pattern (%s))))", strings.Join(binders, " "), lhs.S, body.S, lhs.S, app(f.Res, old, params...).S)
	st.heap[f.Name] = nv
	if strings.HasPrefix(f.Name, "MD.") {
		st.sc.emit("(assert (forall ((k %[2]s)) (! (not (%[1]s 0 k)) :pattern ((%[1]s 0 k)))))", nv, f.Args[1])
	}
	if strings.HasPrefix(f.Name, "ML.") {
		st.sc.emit("(assert (= (%s 0) 0))", nv)
	}
}

// ---------------------------------------------------------------------------
// locations

func (st *State) u() *Universe { return st.ex.prog.Universe }

// locOfPointer interprets a pointer-typed term according to its static type.
func (st *State) locOfPointer(id Term, ptrType types.Type) Loc {
	pt, ok := ptrType.Underlying().(*types.Pointer)
	if !ok {
		panic(fmt.Sprintf("locOfPointer: not a pointer type %s", ptrType))
	}
	el := pt.Elem()
	switch et := el.Underlying().(type) {
	case *types.Struct:
		return Loc{Kind: LObj, Obj: id, Type: el}
	case *types.Array:
		return Loc{Kind: LArr, Obj: id, Type: el, N: et.Len()}
	}
	s := st.u().sortOf(el)
	return Loc{Kind: LCell, Fam: st.cellFam(s).Name, Obj: id, Type: el}
}

func (st *State) applyPath(v Term, path []PathSel) Term {
	for _, p := range path {
		st.sc.ensureSort(p.Struct)
		v = app(p.Sort, fmt.Sprintf("%s.%s", p.Struct, p.Field), v)
	}
	return v
}

// rebuild value with path updated
func (st *State) updatePath(base Term, path []PathSel, val Term) Term {
	if len(path) == 0 {
		return val
	}
	p := path[0]
	si := st.u().structs[string(p.Struct)]
	var args []Term
	for i, f := range si.Fields {
		cur := app(f.Sort, fmt.Sprintf("%s.%s", p.Struct, f.Name), base)
		if i == p.Index {
			args = append(args, st.updatePath(cur, path[1:], val))
		} else {
			args = append(args, cur)
		}
	}
	return app(p.Struct, "mk-"+string(p.Struct), args...)
}

func (st *State) loadLoc(snap map[string]string, l Loc) Term {
	switch l.Kind {
	case LObj:
		si := st.u().structInfoOf(l.Type)
		st.sc.ensureSort(si.Sort)
		if len(si.Fields) == 0 {
			return Term{"mk-" + string(si.Sort), si.Sort}
		}
		var args []Term
		for i := range si.Fields {
			f := st.fieldFam(si, i)
			args = append(args, st.readFam(snap, f, l.Obj))
		}
		return app(si.Sort, "mk-"+string(si.Sort), args...)
	case LCell, LField:
		f := st.fams[l.Fam]
		return st.applyPath(st.readFam(snap, f, l.Obj), l.Path)
	case LElem:
		f := st.fams[l.Fam]
		return st.applyPath(st.getElem(snap, f, *l.Sl, *l.Rel), l.Path)
	}
	panic("loadLoc: unsupported loc kind")
}

func (st *State) storeLoc(l Loc, v Term) {
	switch l.Kind {
	case LObj:
		si := st.u().structInfoOf(l.Type)
		st.sc.ensureSort(si.Sort)
		for i, fld := range si.Fields {
			f := st.fieldFam(si, i)
			st.writeFam(f, []Term{l.Obj}, app(fld.Sort, fmt.Sprintf("%s.%s", si.Sort, fld.Name), v))
		}
	case LCell, LField:
		f := st.fams[l.Fam]
		if len(l.Path) > 0 {
			v = st.updatePath(st.readFam(st.heap, f, l.Obj), l.Path, v)
		}
		st.writeFam(f, []Term{l.Obj}, v)
	case LElem:
		f := st.fams[l.Fam]
		if len(l.Path) > 0 {
			v = st.updatePath(st.getElem(st.heap, f, *l.Sl, *l.Rel), l.Path, v)
		}
		st.updateElems(f, l.Obj, l.Idx, add(l.Idx, intLit(1)), tTrue, func(abs Term) Term { return v })
		// ground instance: introduces the term for the cell just written
		st.sc.assert(eq(st.getElem(st.heap, f, *l.Sl, *l.Rel), v))
	default:
		panic("storeLoc: unsupported loc kind")
	}
}

func (l Loc) String() string {
	switch l.Kind {
	case LObj:
		return "obj(" + l.Obj.S + ")"
	case LCell:
		return l.Fam + "(" + l.Obj.S + ")"
	case LField:
		var p []string
		for _, s := range l.Path {
			p = append(p, s.Field)
		}
		return l.Fam + "(" + l.Obj.S + ")" + strings.Join(p, ".")
	case LElem:
		return l.Fam + "(" + l.Obj.S + "," + l.Idx.S + ")"
	case LArr:
		return "arr(" + l.Obj.S + ")"
	}
	return "?"
}

// assume integer range of value according to its Go type
func (st *State) assumeRange(v Term, t types.Type) {
	if lo, hi, ok := intRange(t); ok && v.Sort == SInt {
		st.sc.assert(and(T(SBool, "(<= %s %s)", lo, v.S), T(SBool, "(<= %s %s)", v.S, hi)))
	}
}

// assumeWellFormed: type-driven facts about a value that comes from outside
// (parameter, load, call result): integer ranges, slice shape, allocatedness.
func (st *State) assumeWellFormed(v Term, t types.Type) {
	switch tt := t.Underlying().(type) {
	case *types.Basic:
		st.assumeRange(v, t)
	case *types.Slice:
		st.sc.assert(T(SBool, "(and (<= 0 (s-off %[1]s)) (<= 0 (s-len %[1]s)) (<= (s-len %[1]s) (s-cap %[1]s)) (<= 0 (s-arr %[1]s)) (< (s-arr %[1]s) %[2]s) (=> (= (s-arr %[1]s) 0) (and (= (s-cap %[1]s) 0) (= (s-off %[1]s) 0))) (<= (+ (s-off %[1]s) (s-cap %[1]s)) 281474976710656))", v.S, st.alloc.S))
	case *types.Pointer, *types.Map, *types.Signature:
		st.sc.assert(T(SBool, "(and (<= 0 %[1]s) (< %[1]s %[2]s))", v.S, st.alloc.S))
	case *types.Struct:
		si := st.u().structInfoOf(t)
		st.sc.ensureSort(si.Sort)
		for _, f := range si.Fields {
			switch f.Type.Underlying().(type) {
			case *types.Basic, *types.Slice, *types.Pointer, *types.Map, *types.Struct:
				st.assumeWellFormed(app(f.Sort, fmt.Sprintf("%s.%s", si.Sort, f.Name), v), f.Type)
			}
		}
	case *types.Interface:
		_ = tt
		st.sc.assert(T(SBool, "(and (<= 0 (i-type %[1]s)) (=> (= (i-type %[1]s) 0) (= (i-val %[1]s) 0)))", v.S))
		// static typing: the dynamic type implements the static interface type
		if it, ok := t.Underlying().(*types.Interface); ok && it.NumMethods() > 0 {
			st.sc.assert(or(eq(ifType(v), intLit(0)), st.implementsPred(ifType(v), t)))
		}
		// what the interface value holds was allocated before the value was obtained
		ids := make([]int, 0, len(st.u().typeByID))
		for id := range st.u().typeByID {
			ids = append(ids, id)
		}
		sort.Ints(ids)
		var ptrIDs []Term
		for _, id := range ids {
			ct := st.u().typeByID[id]
			switch ct.Underlying().(type) {
			case *types.Pointer, *types.Map, *types.Signature:
				ptrIDs = append(ptrIDs, eq(ifType(v), intLit(int64(id))))
			case *types.Slice:
				sl := st.unbox(ifPayload(v), ct)
				st.sc.assert(implies(eq(ifType(v), intLit(int64(id))), T(SBool, "(and (<= 0 (s-off %[1]s)) (<= 0 (s-len %[1]s)) (<= (s-len %[1]s) (s-cap %[1]s)) (<= 0 (s-arr %[1]s)) (< (s-arr %[1]s) %[2]s) (=> (= (s-arr %[1]s) 0) (and (= (s-cap %[1]s) 0) (= (s-off %[1]s) 0))) (<= (+ (s-off %[1]s) (s-cap %[1]s)) 281474976710656))", sl.S, st.alloc.S)))
			}
		}
		if len(ptrIDs) > 0 {
			st.sc.assert(implies(or(ptrIDs...), and(le(intLit(0), ifPayload(v)), lt(ifPayload(v), st.alloc))))
		}
	}
}

// noteSubslice records that slice value sub is s[lo:...]: reads through sub
// are normalised to reads through the base of s.
func (st *State) noteSubslice(sub, s, lo Term) {
	if lo.S == "0" {
		if b, ok := st.sliceBase[s.S]; ok {
			st.sliceBase[sub.S] = b
		} else {
			st.sliceBase[sub.S] = sliceBaseInfo{Base: s, Delta: intLit(0)}
		}
		return
	}
	if b, ok := st.sliceBase[s.S]; ok {
		st.sliceBase[sub.S] = sliceBaseInfo{Base: b.Base, Delta: add(b.Delta, lo)}
		return
	}
	st.sliceBase[sub.S] = sliceBaseInfo{Base: s, Delta: lo}
}

// mapRead: the value m[k] of a map in snapshot snap, with Go's semantics for absent keys (zero
// value). It is a function symbol per (domain version, value version) with a definitional axiom,
// so that quantified contract clauses over m[k] have an ite-free pattern.
func (st *State) mapRead(snap map[string]string, mt *types.Map, m, k Term) Term {
	d, v, _ := st.mapFamsT(mt)
	ds, vs := st.symIn(snap, d.Name), st.symIn(snap, v.Name)
	name := "MT." + shortTypeName(mt) + "@" + ds[strings.LastIndex(ds, "@")+1:] + "." + vs[strings.LastIndex(vs, "@")+1:]
	if !st.sc.declared["fun:"+name] {
		st.sc.declFun(name, []Sort{SInt, d.Args[1]}, v.Res)
		st.sc.ensureSort(v.Res)
		st.sc.emit("(assert (forall ((m Int) (k %[1]s)) (! (= (%[2]s m k) (ite (%[3]s m k) (%[4]s m k) %[5]s)) :pattern ((%[2]s m k)))))", d.Args[1], name, ds, vs, st.u().zero(v.Res).S)
	}
	return app(v.Res, name, m, k)
}

// runeString: string(rune) as an uninterpreted function with its length facts
func (st *State) runeString(x Term) Term {
	if !st.sc.declared["fun:gstr.ofrune"] {
		st.sc.declFun("gstr.ofrune", []Sort{SInt}, SStr)
		st.sc.emit("(assert (forall ((x Int)) (! (and (<= 1 (gstr.len (gstr.ofrune x))) (<= (gstr.len (gstr.ofrune x)) 4) (=> (and (<= 0 x) (< x 128)) (and (= (gstr.len (gstr.ofrune x)) 1) (= (gstr.at (gstr.ofrune x) 0) x))) (=> (or (< x 0) (>= x 128)) (>= (gstr.len (gstr.ofrune x)) 2))) :pattern ((gstr.ofrune x)))))")
	}
	return app(SStr, "gstr.ofrune", x)
}

// havocClosure: values produced by a havoc (callee effects, loop effects) refer to objects that
// exist afterwards: pointers/maps/functions below the allocation frontier, slices over allocated arrays
func (st *State) havocClosure(f *Family, fresh string, fargs []Sort, bound Term) {
	var binders, args []string
	for i, a := range fargs {
		binders = append(binders, fmt.Sprintf("(y%d %s)", i, a))
		args = append(args, fmt.Sprintf("y%d", i))
	}
	read := "(" + fresh + " " + strings.Join(args, " ") + ")"
	bs := "(" + strings.Join(binders, " ") + ")"
	switch f.Res {
	case SSlice:
		st.sc.emit("(assert (forall %s (! (and (<= 0 (s-arr %[2]s)) (< (s-arr %[2]s) %[3]s)) :pattern (%[2]s))))", bs, read, bound.S)
	case SIface:
		saved := st.alloc0
		st.alloc0 = bound
		st.ifaceClosure(bs, read)
		st.alloc0 = saved
	case SInt:
		if f.Type != nil {
			switch f.Type.Underlying().(type) {
			case *types.Pointer, *types.Map, *types.Signature:
				st.sc.emit("(assert (forall %s (! (and (<= 0 %[2]s) (< %[2]s %[3]s)) :pattern (%[2]s))))", bs, read, bound.S)
			}
		}
	}
}
