package main

import (
	"crypto/sha1"
	"fmt"
	"go/ast"
	"go/types"
	"golang.org/x/tools/go/ssa"
	"os"
	"sort"
	"strings"
)

type Sort string

const (
	SInt   Sort = "Int"
	SBool  Sort = "Bool"
	SStr   Sort = "Str"
	SSlice Sort = "Slice"
	SIface Sort = "Iface"
	SF64   Sort = "F64"
	SUnit  Sort = "Unit"
)

type Term struct {
	S    string
	Sort Sort
}

func T(sort Sort, format string, args ...interface{}) Term {
	return Term{S: fmt.Sprintf(format, args...), Sort: sort}
}

func (t Term) String() string { return t.S }

func intLit(n int64) Term {
	if n < 0 {
		return Term{fmt.Sprintf("(- %d)", -n), SInt}
	}
	return Term{fmt.Sprintf("%d", n), SInt}
}

var (
	tTrue  = Term{"true", SBool}
	tFalse = Term{"false", SBool}
)

func boolLit(b bool) Term {
	if b {
		return tTrue
	}
	return tFalse
}

func app(sort Sort, f string, args ...Term) Term {
	if len(args) == 0 {
		return Term{f, sort}
	}
	var sb strings.Builder
	sb.WriteString("(")
	sb.WriteString(f)
	for _, a := range args {
		sb.WriteString(" ")
		sb.WriteString(a.S)
	}
	sb.WriteString(")")
	return Term{sb.String(), sort}
}

func and(ts ...Term) Term {
	var xs []Term
	for _, t := range ts {
		if t.S == "true" {
			continue
		}
		if t.S == "false" {
			return tFalse
		}
		xs = append(xs, t)
	}
	if len(xs) == 0 {
		return tTrue
	}
	if len(xs) == 1 {
		return xs[0]
	}
	return app(SBool, "and", xs...)
}

func or(ts ...Term) Term {
	var xs []Term
	for _, t := range ts {
		if t.S == "false" {
			continue
		}
		if t.S == "true" {
			return tTrue
		}
		xs = append(xs, t)
	}
	if len(xs) == 0 {
		return tFalse
	}
	if len(xs) == 1 {
		return xs[0]
	}
	return app(SBool, "or", xs...)
}

func not(t Term) Term {
	if t.S == "true" {
		return tFalse
	}
	if t.S == "false" {
		return tTrue
	}
	return app(SBool, "not", t)
}

func implies(a, b Term) Term {
	if a.S == "true" {
		return b
	}
	if a.S == "false" || b.S == "true" {
		return tTrue
	}
	return app(SBool, "=>", a, b)
}
func eq(a, b Term) Term  { return app(SBool, "=", a, b) }
func neq(a, b Term) Term { return not(eq(a, b)) }
func ite(c, a, b Term) Term {
	if c.S == "true" {
		return a
	}
	if c.S == "false" {
		return b
	}
	return app(a.Sort, "ite", c, a, b)
}
func le(a, b Term) Term  { return app(SBool, "<=", a, b) }
func lt(a, b Term) Term  { return app(SBool, "<", a, b) }
func ge(a, b Term) Term  { return app(SBool, ">=", a, b) }
func gt(a, b Term) Term  { return app(SBool, ">", a, b) }
func add(a, b Term) Term { return app(SInt, "+", a, b) }
func sub(a, b Term) Term { return app(SInt, "-", a, b) }

// Slice accessors
func slArr(s Term) Term { return app(SInt, "s-arr", s) }
func slOff(s Term) Term { return app(SInt, "s-off", s) }
func slLen(s Term) Term { return app(SInt, "s-len", s) }
func slCap(s Term) Term { return app(SInt, "s-cap", s) }
func mkSlice(arr, off, ln, cp Term) Term {
	return app(SSlice, "mk-slice", arr, off, ln, cp)
}
func ifType(i Term) Term    { return app(SInt, "i-type", i) }
func ifPayload(i Term) Term { return app(SInt, "i-val", i) }
func mkIface(t, v Term) Term {
	return app(SIface, "mk-iface", t, v)
}

var nilIface = Term{"(mk-iface 0 0)", SIface}
var nilSlice = Term{"(mk-slice 0 0 0 0)", SSlice}

// ---------------------------------------------------------------------------
// Universe: program-wide registry of sorts and type ids. Declarations are
// emitted per script on first use.

type StructInfo struct {
	Sort   Sort
	Name   string
	Fields []FieldInfo
	T      *types.Struct
}
type FieldInfo struct {
	Name string
	Sort Sort
	Type types.Type
}

type Universe struct {
	frozen   bool
	prog     *Program
	structs  map[string]*StructInfo // by sort name
	typeIDs  map[string]int         // types.TypeString -> id
	typeByID map[int]types.Type
	strLits  map[string]int
	funcIDs  map[string]int
	funcByID map[int]string
}

func newUniverse(p *Program) *Universe {
	u := &Universe{prog: p, structs: map[string]*StructInfo{}, typeIDs: map[string]int{}, typeByID: map[int]types.Type{}, strLits: map[string]int{}, funcIDs: map[string]int{}, funcByID: map[int]string{}}
	// pre-register every named type of the repository (and its pointer type) so that type ids and
	// "implements" facts do not depend on the order in which functions are verified
	for _, pp := range sortedKeys(p.Pkgs) {
		if !strings.HasPrefix(pp, modPath) {
			continue
		}
		sc := p.Pkgs[pp].Types.Scope()
		for _, nm := range sc.Names() {
			tn, ok := sc.Lookup(nm).(*types.TypeName)
			if !ok || tn.IsAlias() {
				continue
			}
			if _, isI := tn.Type().Underlying().(*types.Interface); isI {
				continue
			}
			if nt, ok := tn.Type().(*types.Named); ok && nt.TypeParams().Len() > 0 {
				continue
			}
			u.typeID(tn.Type())
			u.typeID(types.NewPointer(tn.Type()))
		}
	}
	// ... and every type the code boxes into an interface or asserts out of one, and every type a contract clause
	// names in typeis[T]/typeid[T], in a fixed order: the scripts of a function are then the same whichever other
	// functions a run verifies (the type table is part of every script)
	for _, k := range p.sortedFuncKeys() {
		fn := p.Funcs[k]
		for _, b := range fn.Blocks {
			for _, in := range b.Instrs {
				switch t := in.(type) {
				case *ssa.MakeInterface:
					u.typeID(t.X.Type())
				case *ssa.TypeAssert:
					if _, isI := t.AssertedType.Underlying().(*types.Interface); !isI {
						u.typeID(t.AssertedType)
					}
				}
			}
		}
	}
	for _, pp := range sortedKeys(p.Pkgs) {
		pk := p.Pkgs[pp]
		if !strings.HasPrefix(pp, modPath) || pk.TypesInfo == nil {
			continue
		}
		for _, f := range pk.Syntax {
			ast.Inspect(f, func(n ast.Node) bool {
				ix, ok := n.(*ast.IndexExpr)
				if !ok {
					return true
				}
				if id, ok := ix.X.(*ast.Ident); ok && (id.Name == "typeis" || id.Name == "typeid") {
					if tv, ok := pk.TypesInfo.Types[ix.Index]; ok && tv.Type != nil {
						if _, isI := tv.Type.Underlying().(*types.Interface); !isI {
							u.typeID(tv.Type)
						}
					}
				}
				return true
			})
		}
	}
	// a few types reach the table through spec-level conversions only
	u.typeID(types.Typ[types.UntypedNil])
	u.typeID(types.Typ[types.Uint8])
	u.typeID(types.Universe.Lookup("byte").Type())
	u.typeID(types.Universe.Lookup("rune").Type())
	for _, pp := range sortedKeys(p.Pkgs) {
		if !strings.HasPrefix(pp, modPath) {
			continue
		}
		sc := p.Pkgs[pp].Types.Scope()
		for _, nm := range sc.Names() {
			if tn, ok := sc.Lookup(nm).(*types.TypeName); ok && !tn.IsAlias() {
				if _, isI := tn.Type().Underlying().(*types.Interface); isI {
					u.typeID(tn.Type())
				}
			}
		}
	}
	// addresses of package-level (and ghost) variables and ids of functions, also in a fixed order
	for _, pp := range sortedKeys(p.Pkgs) {
		if !strings.HasPrefix(pp, modPath) {
			continue
		}
		sc := p.Pkgs[pp].Types.Scope()
		for _, nm := range sc.Names() {
			if v, ok := sc.Lookup(nm).(*types.Var); ok {
				u.funcID("global:" + v.Pkg().Path() + "." + v.Name())
			}
		}
	}
	for _, k := range p.sortedFuncKeys() {
		u.funcID("func:" + k)
	}
	u.frozen = true
	return u
}

func sanitize(s string) string {
	var sb strings.Builder
	for _, r := range s {
		switch {
		case r >= 'a' && r <= 'z', r >= 'A' && r <= 'Z', r >= '0' && r <= '9', r == '_':
			sb.WriteRune(r)
		case r == '.', r == '/':
			sb.WriteRune('_')
		case r == '*':
			sb.WriteString("P")
		case r == '[':
			sb.WriteString("L")
		case r == ']':
			sb.WriteString("R")
		case r == '$':
			sb.WriteString("S")
		default:
			sb.WriteString("_")
		}
	}
	return sb.String()
}

func shortTypeName(t types.Type) string {
	s := types.TypeString(t, func(p *types.Package) string {
		path := p.Path()
		path = strings.TrimPrefix(path, modPath+"/")
		return path
	})
	return sanitize(s)
}

func (u *Universe) typeID(t types.Type) int {
	k := types.TypeString(t, nil)
	if id, ok := u.typeIDs[k]; ok {
		return id
	}
	id := len(u.typeIDs) + 1
	u.typeIDs[k] = id
	u.typeByID[id] = t
	if u.frozen && os.Getenv("GOVC_LATE_TYPES") != "" {
		fmt.Fprintf(os.Stderr, "late type id %d: %s\n", id, k)
	}
	return id
}

func (u *Universe) funcID(key string) int {
	if id, ok := u.funcIDs[key]; ok {
		return id
	}
	id := len(u.funcIDs) + 1
	u.funcIDs[key] = id
	u.funcByID[id] = key
	return id
}

// sortOf maps a Go type to an SMT sort.
func (u *Universe) sortOf(t types.Type) Sort {
	switch tt := t.(type) {
	case *types.Named:
		if st, ok := tt.Underlying().(*types.Struct); ok {
			return u.structSort(shortTypeName(tt), st)
		}
		return u.sortOf(tt.Underlying())
	case *types.Alias:
		return u.sortOf(types.Unalias(tt))
	case *types.Basic:
		switch {
		case tt.Info()&types.IsBoolean != 0:
			return SBool
		case tt.Info()&types.IsInteger != 0:
			return SInt
		case tt.Info()&types.IsString != 0:
			return SStr
		case tt.Info()&types.IsFloat != 0:
			return SF64
		case tt.Kind() == types.UnsafePointer:
			return SInt
		case tt.Kind() == types.UntypedNil:
			return SInt
		}
	case *types.Pointer, *types.Map, *types.Signature, *types.Chan:
		return SInt
	case *types.Slice:
		return SSlice
	case *types.Interface:
		return SIface
	case *types.Struct:
		return u.structSort("anon_"+sanitize(tt.String()), tt)
	case *types.Array:
		// array values are not supported as first-class terms; arrays only
		// occur behind pointers (new [1]T) in the verified subset
		return "Array"
	case *types.Tuple:
		return "Tuple"
	case *types.TypeParam:
		return SIface
	}
	panic(fmt.Sprintf("sortOf: unsupported type %s (%T)", t, t))
}

func (u *Universe) structSort(name string, st *types.Struct) Sort {
	sn := "S_" + name
	if _, ok := u.structs[sn]; ok {
		return Sort(sn)
	}
	si := &StructInfo{Sort: Sort(sn), Name: name, T: st}
	u.structs[sn] = si
	for i := 0; i < st.NumFields(); i++ {
		f := st.Field(i)
		si.Fields = append(si.Fields, FieldInfo{Name: f.Name(), Sort: u.sortOf(f.Type()), Type: f.Type()})
	}
	return Sort(sn)
}

func (u *Universe) structInfoOf(t types.Type) *StructInfo {
	s := u.sortOf(t)
	return u.structs[string(s)]
}

func (u *Universe) zero(s Sort) Term {
	switch s {
	case SInt:
		return intLit(0)
	case SBool:
		return tFalse
	case SStr:
		return Term{"str_empty", SStr}
	case SSlice:
		return nilSlice
	case SIface:
		return nilIface
	case SF64:
		return Term{"f64_zero", SF64}
	}
	if si, ok := u.structs[string(s)]; ok {
		if len(si.Fields) == 0 {
			return Term{"mk-" + string(s), s}
		}
		var args []Term
		for _, f := range si.Fields {
			args = append(args, u.zero(f.Sort))
		}
		return app(s, "mk-"+string(s), args...)
	}
	panic("zero: unknown sort " + string(s))
}

// intRange returns lo,hi for integer types (as decimal strings) or ok=false
func intRange(t types.Type) (lo, hi string, ok bool) {
	b, isb := t.Underlying().(*types.Basic)
	if !isb || b.Info()&types.IsInteger == 0 {
		return "", "", false
	}
	switch b.Kind() {
	case types.Int, types.Int64:
		return "(- 9223372036854775808)", "9223372036854775807", true
	case types.Int32:
		return "(- 2147483648)", "2147483647", true
	case types.Int16:
		return "(- 32768)", "32767", true
	case types.Int8:
		return "(- 128)", "127", true
	case types.Uint, types.Uint64, types.Uintptr:
		return "0", "18446744073709551615", true
	case types.Uint32:
		return "0", "4294967295", true
	case types.Uint16:
		return "0", "65535", true
	case types.Uint8:
		return "0", "255", true
	case types.UntypedInt, types.UntypedRune:
		return "", "", false
	}
	return "", "", false
}

func intBits(t types.Type) (bits int, signed bool, ok bool) {
	b, isb := t.Underlying().(*types.Basic)
	if !isb || b.Info()&types.IsInteger == 0 {
		return 0, false, false
	}
	switch b.Kind() {
	case types.Int, types.Int64:
		return 64, true, true
	case types.Int32:
		return 32, true, true
	case types.Int16:
		return 16, true, true
	case types.Int8:
		return 8, true, true
	case types.Uint, types.Uint64, types.Uintptr:
		return 64, false, true
	case types.Uint32:
		return 32, false, true
	case types.Uint16:
		return 16, false, true
	case types.Uint8:
		return 8, false, true
	}
	return 0, false, false
}

func pow2(n int) string {
	// decimal string of 2^n for n in {8,16,32,64} and n-1
	switch n {
	case 7:
		return "128"
	case 8:
		return "256"
	case 15:
		return "32768"
	case 16:
		return "65536"
	case 31:
		return "2147483648"
	case 32:
		return "4294967296"
	case 63:
		return "9223372036854775808"
	case 64:
		return "18446744073709551616"
	}
	panic("pow2")
}

// wrapInt encodes conversion of mathematical integer x to machine type t.
func wrapInt(x Term, t types.Type) Term {
	bits, signed, ok := intBits(t)
	if !ok {
		return x
	}
	m := pow2(bits)
	if !signed {
		return T(SInt, "(mod %s %s)", x.S, m)
	}
	h := pow2(bits - 1)
	return T(SInt, "(- (mod (+ %s %s) %s) %s)", x.S, h, m, h)
}

// ---------------------------------------------------------------------------
// Script: one SMT-LIB script (one path). Declarations are added on demand.

type Script struct {
	u        *Universe
	lines    []string
	declared map[string]bool
	nfresh   int
	strLits  []string
}

func newScript(u *Universe) *Script {
	s := &Script{u: u, declared: map[string]bool{}}
	s.lines = append(s.lines,
		"(declare-sort Str 0)",
		"(declare-sort F64 0)",
		"(declare-datatypes ((Slice 0)) (((mk-slice (s-arr Int) (s-off Int) (s-len Int) (s-cap Int)))))",
		"(declare-datatypes ((Iface 0)) (((mk-iface (i-type Int) (i-val Int)))))",
		"(declare-fun gstr.len (Str) Int)",
		"(declare-fun gstr.at (Str Int) Int)",
		"(declare-fun gstr.cat (Str Str) Str)",
		"(declare-const str_empty Str)",
		"(declare-const f64_zero F64)",
		"(assert (= (gstr.len str_empty) 0))",
		"(assert (forall ((s Str)) (! (>= (gstr.len s) 0) :pattern ((gstr.len s)))))",
		"(assert (forall ((a Str) (b Str)) (! (= (gstr.len (gstr.cat a b)) (+ (gstr.len a) (gstr.len b))) :pattern ((gstr.cat a b)))))",
		"(assert (forall ((a Str) (b Str) (i Int)) (! (= (gstr.at (gstr.cat a b) i) (ite (< i (gstr.len a)) (gstr.at a i) (gstr.at b (- i (gstr.len a))))) :pattern ((gstr.at (gstr.cat a b) i)))))",
		"(assert (forall ((a Str) (b Str) (c Str)) (! (= (gstr.cat (gstr.cat a b) c) (gstr.cat a (gstr.cat b c))) :pattern ((gstr.cat (gstr.cat a b) c)))))",
		"(assert (forall ((a Str)) (! (= (gstr.cat a str_empty) a) :pattern ((gstr.cat a str_empty)))))",
		"(assert (forall ((a Str)) (! (= (gstr.cat str_empty a) a) :pattern ((gstr.cat str_empty a)))))",
	)
	return s
}

func (s *Script) clone() *Script {
	n := &Script{u: s.u, nfresh: s.nfresh}
	n.lines = append([]string(nil), s.lines...)
	n.declared = make(map[string]bool, len(s.declared))
	for k, v := range s.declared {
		n.declared[k] = v
	}
	n.strLits = append([]string(nil), s.strLits...)
	return n
}

func (s *Script) emit(format string, args ...interface{}) {
	s.lines = append(s.lines, fmt.Sprintf(format, args...))
}

func (s *Script) assert(t Term) {
	if t.S == "true" {
		return
	}
	s.emit("(assert %s)", t.S)
}

func (s *Script) comment(format string, args ...interface{}) {
	s.emit("; "+format, args...)
}

func (s *Script) ensureSort(sort Sort) {
	if si, ok := s.u.structs[string(sort)]; ok && !s.declared["sort:"+string(sort)] {
		s.declared["sort:"+string(sort)] = true
		for _, f := range si.Fields {
			s.ensureSort(f.Sort)
		}
		var fs []string
		for _, f := range si.Fields {
			fs = append(fs, fmt.Sprintf("(%s.%s %s)", sort, f.Name, f.Sort))
		}
		s.emit("(declare-datatypes ((%s 0)) (((mk-%s %s))))", sort, sort, strings.Join(fs, " "))
	}
}

func (s *Script) fresh(prefix string, sort Sort) Term {
	s.ensureSort(sort)
	s.nfresh++
	name := fmt.Sprintf("%s!%d", sanitize(prefix), s.nfresh)
	s.emit("(declare-const %s %s)", name, sort)
	return Term{name, sort}
}

func (s *Script) freshFun(prefix string, args []Sort, res Sort) string {
	s.ensureSort(res)
	for _, a := range args {
		s.ensureSort(a)
	}
	s.nfresh++
	name := fmt.Sprintf("%s!%d", sanitize(prefix), s.nfresh)
	s.declFun(name, args, res)
	return name
}

func (s *Script) declFun(name string, args []Sort, res Sort) {
	if s.declared["fun:"+name] {
		return
	}
	s.declared["fun:"+name] = true
	s.ensureSort(res)
	var as []string
	for _, a := range args {
		s.ensureSort(a)
		as = append(as, string(a))
	}
	s.emit("(declare-fun %s (%s) %s)", name, strings.Join(as, " "), res)
}

func (s *Script) defineFun(name string, params []Term, res Sort, body Term) {
	s.declared["fun:"+name] = true
	s.ensureSort(res)
	var ps []string
	for _, p := range params {
		ps = append(ps, fmt.Sprintf("(%s %s)", p.S, p.Sort))
	}
	s.emit("(define-fun %s (%s) %s %s)", name, strings.Join(ps, " "), res, body.S)
}

// strLit returns the Str constant for a Go string literal.
func (s *Script) strLit(v string) Term {
	if v == "" {
		return Term{"str_empty", SStr}
	}
	// the symbol is derived from the content, so that scripts do not depend on which literals other functions use
	sum := sha1.Sum([]byte(v))
	name := fmt.Sprintf("strlit_%x", sum[:6])
	if !s.declared["lit:"+name] {
		s.declared["lit:"+name] = true
		s.emit("(declare-const %s Str) ; %q", name, v)
		s.emit("(assert (= (gstr.len %s) %d))", name, len(v))
		if len(v) <= 80 {
			for i := 0; i < len(v); i++ {
				s.emit("(assert (= (gstr.at %s %d) %d))", name, i, v[i])
			}
		}
		// distinct from other literals declared so far
		for _, o := range s.strLits {
			s.emit("(assert (not (= %s %s)))", name, o)
		}
		s.emit("(assert (not (= %s str_empty)))", name)
		s.strLits = append(s.strLits, name)
	}
	return Term{name, SStr}
}

func (s *Script) text() string {
	return strings.Join(s.lines, "\n") + "\n"
}

func sortedKeys[V any](m map[string]V) []string {
	var ks []string
	for k := range m {
		ks = append(ks, k)
	}
	sort.Strings(ks)
	return ks
}
