package main

import (
	"fmt"
	"go/types"
	"strings"

	"golang.org/x/tools/go/ssa"
)

// Inlining of helper functions that carry no contract.
//
// A static call of a function of the module that has a body, no contract, no loop and no defer is
// executed in place (its real SSA body, in the caller's state), so that extracting a few lines into
// an unexported helper does not leave the caller undecided. Obligations raised inside the helper are
// obligations of the caller, named `inl:<helper>/<name>`. Named call anchors (`call:F#k`) count calls
// in flattened order (the calls inside an inlined helper count at the position of the helper's call),
// so an anchored clause keeps pointing at the same call after the extraction. On a tree where every
// callee has a contract nothing is inlined and the numbering is the per-function one.

type inlFrame struct {
	fn      *ssa.Function
	call    *ssa.Call
	retB    *ssa.BasicBlock
	retPred *ssa.BasicBlock
	retIdx  int
	parent  *inlFrame
	prefix  string
	base    map[string]int
	depth   int
}

const maxInlineDepth = 3

// inlinable: the static callee of c, if it is to be executed in place
func (ex *Exec) inlinable(c *ssa.Call) *ssa.Function {
	cc := c.Common()
	if cc.IsInvoke() {
		return nil
	}
	f, ok := cc.Value.(*ssa.Function)
	if !ok {
		return nil
	}
	return ex.inlinableFn(f)
}

func (ex *Exec) inlinableFn(f *ssa.Function) *ssa.Function {
	if v, ok := ex.prog.inlCache[f]; ok {
		if v {
			return f
		}
		return nil
	}
	if ex.prog.inlCache == nil {
		ex.prog.inlCache = map[*ssa.Function]bool{}
	}
	ok := func() bool {
		if f.Blocks == nil || f.Synthetic != "" || f.Pkg == nil || !strings.HasPrefix(f.Pkg.Pkg.Path(), modPath) {
			return false
		}
		if ex.prog.Contracts[keyOfFunction(f)] != nil || ex.prog.Contracts[externalKey(f)] != nil {
			return false
		}
		if f.Recover != nil {
			return false
		}
		for _, b := range f.Blocks {
			for _, s := range b.Succs {
				if s.Dominates(b) {
					return false // a loop: it would need an invariant, hence a contract
				}
			}
			for _, in := range b.Instrs {
				switch in.(type) {
				case *ssa.Defer, *ssa.RunDefers, *ssa.Go, *ssa.Select, *ssa.MakeClosure:
					return false
				}
			}
		}
		return true
	}()
	ex.prog.inlCache[f] = ok
	if ok {
		return f
	}
	return nil
}

// flatCounts: per callee name, the number of calls a function makes in flattened order
func (ex *Exec) flatCounts(f *ssa.Function, depth int) map[string]int {
	out := map[string]int{}
	for _, b := range f.Blocks {
		for _, in := range b.Instrs {
			ex.countCall(in, out, depth)
		}
	}
	return out
}

func (ex *Exec) countCall(in ssa.Instruction, counts map[string]int, depth int) {
	c, ok := in.(*ssa.Call)
	if !ok {
		return
	}
	if _, isBuiltin := c.Call.Value.(*ssa.Builtin); isBuiltin {
		return
	}
	if nm := calleeShortName(c); nm != "" {
		counts[nm]++
	}
	if depth < maxInlineDepth {
		if g := ex.inlinable(c); g != nil && g != ex.fn {
			for k, v := range ex.flatCounts(g, depth+1) {
				counts[k] += v
			}
		}
	}
}

// indexFunction numbers the instructions of f (per kind) and gives every call its flattened named anchor
// relative to the start of f (localAnchor: callee name and ordinal).
func (ex *Exec) indexFunction(f *ssa.Function, primary bool, depth int) {
	if ex.indexed == nil {
		ex.indexed = map[*ssa.Function]bool{}
	}
	if ex.indexed[f] {
		return
	}
	ex.indexed[f] = true
	counts := map[string]int{}
	flat := map[string]int{}
	for _, b := range f.Blocks {
		for _, in := range b.Instrs {
			k := fmt.Sprintf("%T", in)
			if c, ok := in.(*ssa.Call); ok {
				if bi, ok := c.Call.Value.(*ssa.Builtin); ok {
					k = "builtin:" + bi.Name()
				}
			}
			if u, ok := in.(*ssa.UnOp); ok {
				k = "unop:" + u.Op.String()
			}
			if bo, ok := in.(*ssa.BinOp); ok {
				k = "binop:" + bo.Op.String()
			}
			counts[k]++
			ex.ordinal[in] = counts[k]
			if c, ok := in.(*ssa.Call); ok {
				if _, isBuiltin := c.Call.Value.(*ssa.Builtin); !isBuiltin {
					if nm := calleeShortName(c); nm != "" {
						ex.localName[in] = nm
						ex.localOrd[in] = flat[nm] + 1
					}
					snap := map[string]int{}
					for k, v := range flat {
						snap[k] = v
					}
					ex.before[in] = snap
					ex.countCall(in, flat, depth)
				}
			}
			if sto, ok := in.(*ssa.Store); ok && primary {
				// named anchor of a store to a struct field: store:<field>#k (does not move when other stores are added)
				if fa, ok := sto.Addr.(*ssa.FieldAddr); ok {
					if pt, ok := fa.X.Type().Underlying().(*types.Pointer); ok {
						if stt, ok := pt.Elem().Underlying().(*types.Struct); ok {
							fnm := stt.Field(fa.Field).Name()
							counts["storefield:"+fnm]++
							if ex.storeName == nil {
								ex.storeName = map[ssa.Instruction]string{}
							}
							ex.storeName[in] = fmt.Sprintf("store:%s#%d", fnm, counts["storefield:"+fnm])
						}
					}
				}
			}
			if a, ok := in.(*ssa.Alloc); ok && primary && a.Comment != "" {
				if _, dup := ex.allocs[a.Comment]; !dup {
					ex.allocs[a.Comment] = a
				}
			}
		}
	}
}

// anchorOf: the named anchor of a call instruction in the current frame
func (ex *Exec) anchorOf(st *State, in ssa.Instruction) string {
	nm := ex.localName[in]
	if nm == "" {
		return ""
	}
	base := 0
	if st != nil && st.inl != nil {
		base = st.inl.base[nm]
	}
	return fmt.Sprintf("call:%s#%d", nm, base+ex.localOrd[in])
}

// anchorsOf: every named anchor reachable from f in flattened order (for the stale-anchor test)
func (ex *Exec) anchorsOf(f *ssa.Function, base map[string]int, depth int, have map[string]bool) {
	ex.indexFunction(f, false, depth)
	for _, b := range f.Blocks {
		for _, in := range b.Instrs {
			c, ok := in.(*ssa.Call)
			if !ok {
				continue
			}
			if nm := ex.localName[in]; nm != "" {
				have[fmt.Sprintf("call:%s#%d", nm, base[nm]+ex.localOrd[in])] = true
			}
			if depth < maxInlineDepth {
				if g := ex.inlinable(c); g != nil && g != ex.fn {
					nb := map[string]int{}
					for k, v := range base {
						nb[k] = v
					}
					for k, v := range ex.before[in] {
						nb[k] += v
					}
					if nm := ex.localName[in]; nm != "" {
						nb[nm]++
					}
					ex.anchorsOf(g, nb, depth+1, have)
				}
			}
		}
	}
}

// enterInline starts the in-place execution of callee g for call c found at b.Instrs[idx]
func (ex *Exec) enterInline(st *State, c *ssa.Call, g *ssa.Function, b, pred *ssa.BasicBlock, idx int) {
	depth := 1
	if st.inl != nil {
		depth = st.inl.depth + 1
	}
	ex.indexFunction(g, false, depth)
	base := map[string]int{}
	if st.inl != nil {
		for k, v := range st.inl.base {
			base[k] = v
		}
	}
	for k, v := range ex.before[c] {
		base[k] += v
	}
	if nm := ex.localName[c]; nm != "" {
		base[nm]++
	}
	prefix := "inl:" + g.Name() + "/"
	if st.inl != nil {
		prefix = st.inl.prefix + prefix
	}
	fr := &inlFrame{fn: g, call: c, retB: b, retPred: pred, retIdx: idx + 1, parent: st.inl, prefix: prefix, base: base, depth: depth}
	args := c.Common().Args
	if len(args) != len(g.Params) {
		ex.abort("call of %s: %d arguments for %d parameters", g.String(), len(args), len(g.Params))
	}
	for i, p := range g.Params {
		ex.copyValue(st, p, args[i])
	}
	st.sc.comment("inline %s", g.String())
	ex.ninlined++
	st.inl = fr
	ex.walkFrom(st, g.Blocks[0], nil, 0)
}

// leaveInline continues the caller after the inlined callee returned
func (ex *Exec) leaveInline(st *State, r *ssa.Return) {
	fr := st.inl
	switch len(r.Results) {
	case 0:
	case 1:
		ex.copyValue(st, fr.call, r.Results[0])
	default:
		var tp []Term
		for _, v := range r.Results {
			tp = append(tp, ex.val(st, v))
		}
		st.tuples[fr.call] = tp
	}
	st.sc.comment("end of inlined %s", fr.fn.String())
	st.inl = fr.parent
	ex.walkFrom(st, fr.retB, fr.retPred, fr.retIdx)
}

// inlinedMods: what an inlined callee may write, for the havoc of a loop of the caller around the call
func (ex *Exec) inlinedMods(st *State, g *ssa.Function, depth int, mark func(fam string, root ssa.Value)) {
	for _, b := range g.Blocks {
		for _, in := range b.Instrs {
			switch t := in.(type) {
			case *ssa.Store:
				if root := rootOfAddr(t.Addr); root != nil {
					continue // allocated by the callee: fresh at every call
				}
				for _, f := range ex.familiesOfAddr(st, t.Addr) {
					mark(f, nil)
				}
			case *ssa.MapUpdate:
				if root := rootOfAddr(t.Map); root != nil {
					continue
				}
				mt := mapTypeOf(t.Map.Type())
				d, v, l := st.mapFamsT(mt)
				for _, f := range []*Family{d, v, l} {
					mark(f.Name, nil)
				}
			case *ssa.Call:
				if depth < maxInlineDepth {
					if h := ex.inlinable(t); h != nil && h != ex.fn {
						ex.inlinedMods(st, h, depth+1, mark)
						continue
					}
				}
				for _, f := range ex.callModFamilies(st, t) {
					mark(f, nil)
				}
			}
		}
	}
}

func mapTypeOf(t types.Type) *types.Map { return t.Underlying().(*types.Map) }
