package main

import (
	"encoding/json"
	"fmt"
	"os"
	"path/filepath"
	"sort"
	"strconv"
	"strings"
)

type OblSummary struct {
	Name      string   `json:"name"`
	Kind      string   `json:"kind"`
	Func      string   `json:"func"`
	Props     []string `json:"props"`
	Desc      string   `json:"desc"`
	Pos       string   `json:"pos,omitempty"`
	Instances int      `json:"instances"`
	Status    string   `json:"status"` // discharged | failed | vacuous | reachable
	Answer    string   `json:"answer"` // solver answer of the worst instance
	Solver    string   `json:"solver"`
	Secs      float64  `json:"secs"`
	Paths     []int    `json:"paths,omitempty"`
	inst      []*Obl
}

type Report struct {
	Prog      *Program
	Obls      []*OblSummary
	ByName    map[string]*OblSummary
	FuncErrs  map[string]string
	Funcs     []string
	Stale     []string
	Tier      string
	LoadSec   float64
	GenSec    float64
	SolveSec  float64
	WallSec   float64
	TimeoutMs int
	Level     string
	Filtered  bool // a --func filter was given: properties without obligations in the selection are not vacuity alarms
	Stats     *SolveStats
	Results   []*FuncResult
	NPaths    int
}

func buildReport(p *Program, results []*FuncResult, stale []string, want map[string]bool) *Report {
	r := &Report{Prog: p, ByName: map[string]*OblSummary{}, FuncErrs: map[string]string{}, Stale: stale, Results: results}
	for _, fr := range results {
		r.Funcs = append(r.Funcs, fr.Key)
		if fr.Err != nil {
			r.FuncErrs[fr.Key] = fr.Err.Error()
		}
		r.NPaths += len(fr.Paths)
		for _, ps := range fr.Paths {
			for _, o := range ps.Obls {
				s := r.ByName[o.Name]
				if s == nil {
					s = &OblSummary{Name: o.Name, Kind: o.Kind, Func: o.Func, Props: o.Props, Desc: o.Desc, Pos: o.Pos}
					r.ByName[o.Name] = s
					r.Obls = append(r.Obls, s)
				}
				s.inst = append(s.inst, o)
			}
		}
	}
	failedPaths := map[string]bool{}
	for _, fr := range results {
		for _, ps := range fr.Paths {
			for _, o := range ps.Obls {
				if o.Kind != "cover" && o.Status != "unsat" {
					failedPaths[fmt.Sprintf("%s#%d", o.Func, o.Path)] = true
				}
			}
		}
	}
	for _, s := range r.Obls {
		s.Instances = len(s.inst)
		if s.Kind == "cover" {
			s.Status = "vacuous"
			s.Answer = "unsat"
			for _, o := range s.inst {
				// an earlier failed obligation on the same path is assumed
				// afterwards, so its cover probe says nothing
				if o.Status != "unsat" || failedPaths[fmt.Sprintf("%s#%d", o.Func, o.Path)] {
					s.Status = "reachable"
					s.Answer = o.Status
					s.Solver = o.Solver
				}
			}
			continue
		}
		s.Status = "discharged"
		s.Answer = "unsat"
		rank := func(a string) int {
			switch {
			case a == "unsat":
				return 0
			case a == "sat":
				return 3
			case strings.HasPrefix(a, "error"):
				return 2
			default:
				return 1
			}
		}
		for _, o := range s.inst {
			s.Secs += o.Secs
			if o.Status == "unsat" {
				if s.Solver == "" {
					s.Solver = o.Solver
				}
				continue
			}
			s.Status = "failed"
			a := o.Status
			if a == "" {
				a = "not-run"
			}
			if rank(a) >= rank(s.Answer) {
				s.Answer = a
				s.Solver = o.Solver
			}
			s.Paths = append(s.Paths, o.Path)
		}
	}
	sort.Slice(r.Obls, func(i, j int) bool { return r.Obls[i].Name < r.Obls[j].Name })
	return r
}

func (r *Report) print(verbose bool) {
	nd, nf := 0, 0
	for _, s := range r.Obls {
		switch s.Status {
		case "discharged", "reachable":
			nd++
			if verbose {
				fmt.Printf("  ok      %-70s %s\n", s.Name, s.Solver)
			}
		default:
			nf++
			fmt.Printf("  FAILED  %-70s %s (%s) paths=%v  -- %s\n", s.Name, s.Answer, s.Solver, s.Paths, s.Desc)
			if os.Getenv("GOVC_EXPLAIN") != "" {
				seen := map[string]bool{}
				for _, o := range s.inst {
					if o.Status != "unsat" && !seen[o.Part+o.Term] {
						seen[o.Part+o.Term] = true
						t := o.Term
						if len(t) > 600 {
							t = t[:600] + "..."
						}
						fmt.Printf("          path %d part=%q: %s\n", o.Path, o.Part, t)
					}
				}
			}
		}
	}
	for _, k := range sortedKeys(r.FuncErrs) {
		fmt.Printf("  ENGINE  %s\n", r.FuncErrs[k])
	}
	for _, s := range r.Stale {
		fmt.Printf("  STALE-CONTRACT %s matches no function\n", s)
	}
	fmt.Printf("govc: %d functions, %d paths, %d obligations: %d discharged, %d failed; load %.1fs gen %.1fs solve %.1fs\n", len(r.Funcs), r.NPaths, len(r.Obls), nd, nf, r.LoadSec, r.GenSec, r.SolveSec)
}

type KnownFindings struct {
	Findings []struct {
		Property   string `json:"property"`
		Obligation string `json:"obligation"`
		What       string `json:"what"`
		// Parts: for a frame obligation of a call, the heap families of the callee's footprint that are known not
		// to be writable here; an instance about any other family is a new violation, not this finding
		Parts []string `json:"parts,omitempty"`
	} `json:"findings"`
	Fixed []string `json:"fixed"`
}

func loadKnown(path string) *KnownFindings {
	kf := &KnownFindings{}
	b, err := os.ReadFile(path)
	if err != nil {
		return kf
	}
	_ = json.Unmarshal(b, kf)
	return kf
}

func (r *Report) finish(evidenceDir, knownPath, replayDir string, want map[string]bool) int {
	kf := loadKnown(knownPath)
	code := 0
	var props []string
	for p := range want {
		props = append(props, p)
	}
	sort.Strings(props)
	if len(props) == 0 {
		// free-form run (development): exit status only
		for _, s := range r.Obls {
			if s.Status == "failed" || s.Status == "vacuous" {
				code = 1
			}
		}
		if len(r.FuncErrs) > 0 || len(r.Stale) > 0 {
			code = 1
		}
		return code
	}
	seed, _ := strconv.Atoi(os.Getenv("VERIF_SEED"))
	for _, prop := range props {
		var mine []*OblSummary
		for _, s := range r.Obls {
			for _, p := range s.Props {
				if p == prop {
					mine = append(mine, s)
					break
				}
			}
		}
		violations := 0
		known := 0
		discharged := 0
		var samples []interface{}
		bySolver := map[string]int{}
		for _, s := range mine {
			ok := s.Status == "discharged" || s.Status == "reachable"
			if ok {
				if s.Kind != "cover" {
					discharged++
					bySolver[s.Solver]++
				}
				if len(samples) < 6 && s.Kind != "cover" && s.Solver != "syntactic" {
					samples = append(samples, map[string]interface{}{"obligation": s.Name, "kind": s.Kind, "clause": s.Desc, "solver": s.Solver, "path_instances": s.Instances})
				}
				continue
			}
			isKnown := false
			var beyond []string
			for _, f := range kf.Findings {
				if f.Obligation == s.Name {
					// a listed finding is reported under the property it was recorded for, whichever check meets it
					fmt.Printf("KNOWN-FINDING: property=%s %s %s\n", f.Property, s.Name, f.What)
					isKnown = true
					known++
					if len(f.Parts) > 0 {
						allowed := map[string]bool{}
						for _, p := range f.Parts {
							allowed[p] = true
						}
						seen := map[string]bool{}
						for _, o := range s.inst {
							if o.Status != "unsat" && !allowed[o.Part] && !seen[o.Part] {
								seen[o.Part] = true
								beyond = append(beyond, o.Part)
							}
						}
					}
				}
			}
			if isKnown && len(beyond) == 0 {
				continue
			}
			if isKnown {
				// the obligation fails in a part the recorded finding does not cover: a different violation
				sort.Strings(beyond)
				s = &OblSummary{Name: s.Name + "/part:" + strings.Join(beyond, ","), Kind: s.Kind, Func: s.Func, Props: s.Props, Desc: s.Desc + " (fails for footprint parts the recorded finding does not cover: " + strings.Join(beyond, ", ") + ")", Pos: s.Pos, Answer: s.Answer, Solver: s.Solver, inst: s.inst}
			}
			violations++
			path := r.writeReplay(replayDir, prop, s)
			fmt.Printf("VIOLATION property=%s replay=%s obligation=%s answer=%s no-failing-input-found\n", prop, path, s.Name, s.Answer)
		}
		// engine errors / stale contracts on functions carrying this property
		for _, fr := range r.Results {
			if fr.Err == nil {
				continue
			}
			if fr.Exec.con != nil && hasProp(r.Prog.contractPropsFull(fr.Exec.con), map[string]bool{prop: true}) {
				violations++
				s := &OblSummary{Name: fr.Key + "/engine", Kind: "engine", Func: fr.Key, Desc: fr.Err.Error(), Answer: "undecided"}
				path := r.writeReplay(replayDir, prop, s)
				fmt.Printf("VIOLATION property=%s replay=%s obligation=%s answer=undecided(%s) no-failing-input-found\n", prop, path, s.Name, strings.ReplaceAll(fr.Err.Error(), "\n", " "))
			}
		}
		// contracts that match no function any more (the function was renamed, removed, or its receiver changed): what
		// they promised is no longer checked for anything
		for _, k := range r.Stale {
			c := r.Prog.Contracts[k]
			if c == nil || !hasProp(r.Prog.contractPropsFull(c), map[string]bool{prop: true}) {
				continue
			}
			violations++
			s := &OblSummary{Name: k + "/engine", Kind: "engine", Func: k, Desc: "STALE-CONTRACT: the contract matches no function of the current tree", Answer: "undecided"}
			path := r.writeReplay(replayDir, prop, s)
			fmt.Printf("VIOLATION property=%s replay=%s obligation=%s answer=undecided(STALE-CONTRACT: the contract of %s matches no function) no-failing-input-found\n", prop, path, s.Name, k)
		}
		nobl := 0
		for _, s := range mine {
			if s.Kind != "cover" {
				nobl++
			}
		}
		if nobl == 0 && !r.Filtered {
			violations++
			fmt.Printf("VIOLATION property=%s replay=%s obligation=none answer=no-obligations-generated no-failing-input-found\n", prop, r.writeReplay(replayDir, prop, &OblSummary{Name: "no-obligations", Desc: "vacuity: no obligation was generated for this property"}))
		}
		if violations > 0 {
			code = 1
		}
		if evidenceDir != "" {
			r.writeEvidence(evidenceDir, prop, mine, nobl, discharged, violations, known, samples, bySolver, seed)
		}
	}
	return code
}

func (r *Report) levelOr() string {
	if r.Level == "" {
		return "proof"
	}
	return r.Level
}

func (r *Report) writeReplay(dir, prop string, s *OblSummary) string {
	d := filepath.Join(dir, prop)
	os.MkdirAll(d, 0o755)
	path := filepath.Join(d, sanitize(s.Name)+".json")
	var scripts []string
	for _, o := range s.inst {
		if o.Status != "unsat" {
			scripts = append(scripts, fmt.Sprintf("path %d seq %d: %s (%s)", o.Path, o.Seq, o.Status, o.Solver))
		}
	}
	obj := map[string]interface{}{
		"property":      prop,
		"obligation":    s.Name,
		"kind":          s.Kind,
		"function":      s.Func,
		"clause":        s.Desc,
		"source":        s.Pos,
		"solver_answer": s.Answer,
		"solver":        s.Solver,
		"instances":     scripts,
		"note":          "obligation generated from /repo's current source is not discharged; no concrete failing input was produced by the verifier (no-failing-input-found)",
	}
	b, _ := json.MarshalIndent(obj, "", " ")
	os.WriteFile(path, b, 0o644)
	return path
}

func (r *Report) writeEvidence(dir, prop string, mine []*OblSummary, nobl, discharged, violations, known int, samples []interface{}, bySolver map[string]int, seed int) {
	os.MkdirAll(dir, 0o755)
	funcs := map[string]bool{}
	kinds := map[string]int{}
	for _, s := range mine {
		funcs[s.Func] = true
		if s.Kind != "cover" {
			kinds[s.Kind]++
		}
	}
	var fl []string
	for f := range funcs {
		fl = append(fl, f)
	}
	sort.Strings(fl)
	var assumptions []string
	for _, k := range sortedKeys(r.Prog.Contracts) {
		c := r.Prog.Contracts[k]
		if c.Kind == "assume" {
			assumptions = append(assumptions, "assumed contract (unchecked) on external function "+c.Target)
		}
		if c.Kind == "axiom" {
			assumptions = append(assumptions, "axiom (trusted) "+c.Target+": "+c.Requires[0].Text)
		}
	}
	for _, k := range sortedKeys(r.Prog.Contracts) {
		c := r.Prog.Contracts[k]
		for _, f := range sortedKeys(c.Flags) {
			if f == "trusted" {
				assumptions = append(assumptions, "TRUSTED (contract assumed, body not verified): "+c.Target)
			} else if strings.HasPrefix(f, "design_panic=") {
				assumptions = append(assumptions, fmt.Sprintf("ASSUMED, not proved: the safety obligation %s of %s (a panic the function documents for a value that user code computes during the call; no precondition can state it beforehand)", strings.TrimPrefix(f, "design_panic="), c.Target))
			} else if f != "pure" {
				assumptions = append(assumptions, fmt.Sprintf("flag %s on %s", f, c.Target))
			}
		}
	}
	nIface := 0
	for _, k := range sortedKeys(r.Prog.Contracts) {
		if r.Prog.Contracts[k].Kind == "interface" {
			nIface++
		}
	}
	assumptions = append(assumptions,
		fmt.Sprintf("%d interface-method contracts (interface pkg.I.M) are ASSUMED of every implementation that is not in /repo (user-written parsers, nodes, interpreters, readers, files); for the implementations in /repo they are proof obligations where the implementation's contract includes/refines them", nIface),
		"function values stored in a combinator (Sequence lookup/length functions, closures' captured variables) are not reassigned after construction; a closure's invariant on its captured variables ([inv]) is assumed at its entry and proved at its creation and at each of its returns",
		"ghost state (Ghost* variables and functions) is proof instrumentation: its updates are part of the contracts, not of the code",
		"integers are mathematical Int in the VCs; every + - * on a machine integer type carries an explicit no-overflow obligation (safe/overflow#...) unless the contract is flagged arith_mathematical",
		"slices: offset+cap <= 2^62 (address space bound) assumed for every slice value that enters from outside",
		"pointer/slice/map values read from parameters or the heap refer to objects allocated before the read (no dangling future ids)",
		"go/ssa (x/tools v0.29.0) is the semantics of the Go source; garbage collection, allocation failure and stack exhaustion are not modelled",
		"partial correctness: termination is only checked where a `decreases` clause is given")
	sv := map[string]float64{}
	for k, v := range r.Stats.SolverSec {
		sv[k] = float64(int(v*100)) / 100
	}
	ev := map[string]interface{}{
		"property_id": prop,
		"tier":        r.Tier,
		"seed":        seed,
		"level":       r.levelOr(),
		"coverage": map[string]interface{}{
			"obligations":             nobl,
			"discharged":              discharged,
			"known_findings":          known,
			"checker_cmd":             "/verif/bin/govc check --props " + prop + " --tier " + r.Tier,
			"explanation":             fmt.Sprintf("contract-based deductive verification of the real code: %d obligations were generated from /repo's current source for the contract clauses that carry this property (plus the safety, frame and call-precondition obligations of the functions they sit in), %d discharged by an SMT solver for all inputs, %d matched a recorded known finding, %d failed. Which part of the property's statement these clauses cover, and which part no contract reaches, is stated in MANIFEST.json level_claimed.text.", nobl, discharged, known, violations),
			"trusted_base":            []string{"go/ssa + go/types (x/tools v0.29.0)", "govc VC generator (this repository, unverified)", "z3 5.1.0 / z3 4.8.12 / cvc5 1.0 (any one answering unsat)", "assumed contracts listed under assumptions"},
			"functions_under_contract": fl,
			"obligations_by_kind":     kinds,
			"discharged_by_backend":   bySolver,
			"paths":                   r.NPaths,
			"helper_calls_executed_in_place": r.inlinedCalls(),
			"solver_seconds":          sv,
			"per_query_timeout_ms":    r.TimeoutMs,
			"cross_checked":           map[string]interface{}{"enabled": r.Tier == "thorough", "obligation_instances_confirmed_by_a_second_solver": r.Stats.Confirmed, "disagreements": r.Stats.Disagree},
			"samples":                 samples,
			"load_s":                  r.LoadSec,
			"vcgen_s":                 r.GenSec,
			"solve_s":                 r.SolveSec,
		},
		"assumptions": assumptions,
		"wall_s":      r.WallSec,
		"violations":  violations,
	}
	b, _ := json.MarshalIndent(ev, "", " ")
	os.WriteFile(filepath.Join(dir, prop+".json"), b, 0o644)
}

// inlinedCalls: calls of functions without a contract that were executed in place (0 on a tree where every callee
// of a function under contract has a contract of its own)
func (r *Report) inlinedCalls() int {
	n := 0
	for _, fr := range r.Results {
		if fr.Exec != nil {
			n += fr.Exec.ninlined
		}
	}
	return n
}
