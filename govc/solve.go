package main

import (
	"bytes"
	"context"
	"fmt"
	"os"
	"os/exec"
	"path/filepath"
	"regexp"
	"strconv"
	"strings"
	"sync"
	"time"
)

type SolverCfg struct {
	Name string
	Cmd  func(file string, perQueryMs int) []string
	Pre  string
}

var solvers = []SolverCfg{
	{Name: "z3-new-5.1.0-ematch", Cmd: func(f string, ms int) []string {
		return []string{"z3-new", "-smt2", fmt.Sprintf("-t:%d", ms), "smt.mbqi=false", f}
	}},
	{Name: "z3-new-5.1.0", Cmd: func(f string, ms int) []string {
		return []string{"z3-new", "-smt2", fmt.Sprintf("-t:%d", ms), f}
	}},
	{Name: "z3-4.8.12", Cmd: func(f string, ms int) []string {
		return []string{"z3", "-smt2", fmt.Sprintf("-t:%d", ms), f}
	}},
	{Name: "cvc5-1.0", Cmd: func(f string, ms int) []string {
		return []string{"cvc5", "--incremental", "--lang=smt2", fmt.Sprintf("--tlimit-per=%d", ms), f}
	}, Pre: "(set-logic ALL)\n"},
}

// seedArgs: development only (GOVC_SEED=n): run the z3 back ends with another random seed to look for unstable
// obligations; registered checks always use the solvers' default seed, so that a run is reproducible
func seedArgs(argv []string) []string {
	sd := os.Getenv("GOVC_SEED")
	if sd == "" || !strings.HasPrefix(argv[0], "z3") {
		return argv
	}
	out := append([]string{}, argv[:len(argv)-1]...)
	out = append(out, "smt.random_seed="+sd, "sat.random_seed="+sd, argv[len(argv)-1])
	return out
}

var oblRe = regexp.MustCompile(`^"?OBL (\d+) `)

// runScript runs one solver on a path script, returns per-seq answers.
func runScript(sv SolverCfg, file string, perQueryMs int, nobl int) (map[int]string, float64, error) {
	return runScriptCtx(context.Background(), sv, file, perQueryMs, nobl)
}

func runScriptCtx(parent context.Context, sv SolverCfg, file string, perQueryMs int, nobl int) (map[int]string, float64, error) {
	ctx, cancel := context.WithTimeout(parent, time.Duration(perQueryMs*(nobl+2))*time.Millisecond+20*time.Second)
	defer cancel()
	argv := seedArgs(sv.Cmd(file, perQueryMs))
	cmd := exec.CommandContext(ctx, argv[0], argv[1:]...)
	var out bytes.Buffer
	cmd.Stdout = &out
	cmd.Stderr = &out
	t0 := time.Now()
	_ = cmd.Run()
	secs := time.Since(t0).Seconds()
	res := map[int]string{}
	cur := -1
	for _, line := range strings.Split(out.String(), "\n") {
		line = strings.TrimSpace(line)
		if m := oblRe.FindStringSubmatch(line); m != nil {
			cur, _ = strconv.Atoi(m[1])
			continue
		}
		switch line {
		case "sat", "unsat", "unknown", "timeout":
			if cur >= 0 {
				res[cur] = line
				cur = -1
			}
		default:
			if strings.HasPrefix(line, "(error") && cur >= 0 {
				res[cur] = "error: " + line
				cur = -1
			} else if strings.HasPrefix(line, "(error") {
				return res, secs, fmt.Errorf("%s: %s", sv.Name, line)
			}
		}
	}
	return res, secs, nil
}

// crossCheck (thorough tier): every path script is also run through the other back ends; an obligation is
// "confirmed" when a second, independent solver answers unsat as well; a `sat` answer contradicting an `unsat`
// is reported as a failure (solver disagreement).
var crossCheck = false

// retryOff: development runs with an explicit -timeout do not retry
var retryOff = false

// knownObls: obligations listed as known findings are expected to fail; they get a short time limit
var knownObls = map[string]bool{}

// knownParts: for a known finding that lists footprint parts, the parts expected to fail (others get the full limit)
var knownParts = map[string]map[string]bool{}

// expectedToFail: the instance is (part of) a recorded finding
func expectedToFail(o *Obl) bool {
	if !knownObls[o.Name] {
		return false
	}
	if ps, ok := knownParts[o.Name]; ok && len(ps) > 0 {
		return ps[o.Part]
	}
	return true
}

type SolveStats struct {
	Confirmed int
	Disagree  int
	Scripts   int
	SolverSec map[string]float64
	mu        sync.Mutex
}

// solveAll discharges all path scripts of the given execs in parallel.
func solveAll(paths []*PathScript, workDir string, perQueryMs int, jobs int, onlySolver string, stats *SolveStats) {
	os.MkdirAll(workDir, 0o755)
	var wg sync.WaitGroup
	sem := make(chan struct{}, jobs)
	for _, ps := range paths {
		need := false
		for _, o := range ps.Obls {
			if !o.Trivial {
				need = true
			}
		}
		if !need {
			continue
		}
		wg.Add(1)
		sem <- struct{}{}
		go func(ps *PathScript) {
			defer wg.Done()
			defer func() { <-sem }()
			solvePath(ps, workDir, perQueryMs, onlySolver, stats)
		}(ps)
	}
	wg.Wait()
}

// isolate builds a script that contains everything up to obligation seq and
// only that obligation's check (a fresh, non-incremental solver run is more
// reliable for E-matching than push/pop mode).
func isolate(script string, seq int) string {
	parts := strings.Split(script, "(push 1)")
	var sb strings.Builder
	sb.WriteString(parts[0])
	marker := fmt.Sprintf("(echo \"OBL %d ", seq)
	for _, b := range parts[1:] {
		i := strings.Index(b, "(pop 1)")
		if i < 0 {
			continue
		}
		body, rest := b[:i], b[i+len("(pop 1)"):]
		if strings.Contains(body, marker) {
			// keep the solver in incremental mode (push): z3's non-incremental preprocessing makes
			// the quantified goals of this encoding much harder
			sb.WriteString("(push 1)")
			sb.WriteString(body)
			sb.WriteString("\n(exit)\n")
			return sb.String()
		}
		sb.WriteString(rest)
	}
	return sb.String()
}

// dropObligation removes the push/check-sat/pop block of obligation seq from a path script
func dropObligation(script string, seq int) string {
	marker := fmt.Sprintf("(push 1)\n(echo \"OBL %d ", seq)
	i := strings.Index(script, marker)
	if i < 0 {
		return script
	}
	j := strings.Index(script[i:], "(pop 1)")
	if j < 0 {
		return script
	}
	return script[:i] + script[i+j+len("(pop 1)"):]
}

func solvePath(ps *PathScript, workDir string, perQueryMs int, onlySolver string, stats *SolveStats) {
	base := filepath.Join(workDir, fmt.Sprintf("%s.p%d", sanitize(ps.Func), ps.ID))
	nobl := 0
	for _, o := range ps.Obls {
		if !o.Trivial {
			nobl++
		}
	}
	record := func(sv SolverCfg, secs float64) {
		stats.mu.Lock()
		stats.Scripts++
		stats.SolverSec[sv.Name] += secs
		stats.mu.Unlock()
	}
	// pass 1: whole path, incremental, E-matching only
	first := solvers[0]
	if onlySolver == "" || strings.HasPrefix(first.Name, onlySolver) {
		file := base + "." + first.Name + ".smt2"
		// instances of recorded findings are expected to fail: they are left out of the whole-path run (where each
		// would sit out the full limit) and go straight to the isolated pass with a short limit
		script := ps.Script
		for _, o := range ps.Obls {
			if !o.Trivial && expectedToFail(o) {
				script = dropObligation(script, o.Seq)
			}
		}
		if err := os.WriteFile(file, []byte(first.Pre+script), 0o644); err == nil {
			p1 := perQueryMs
			if p1 > 10000 {
				p1 = 10000 // the first pass is the fast one; what it leaves is retried in isolation with the full limit
			}
			res, secs, _ := runScript(first, file, p1, nobl)
			record(first, secs)
			for _, o := range ps.Obls {
				if o.Trivial {
					continue
				}
				if r, ok := res[o.Seq]; ok {
					o.Status = r
					o.Solver = first.Name
					o.Secs = secs / float64(nobl)
				}
			}
		}
	}
	if crossCheck && onlySolver == "" {
		defer func() {
			for _, sv := range solvers[2:] { // z3 4.8.12 and cvc5: different code bases from the deciding z3 5.1
				file := base + ".cross." + sv.Name + ".smt2"
				cscript := ps.Script
				for _, o := range ps.Obls {
					if !o.Trivial && expectedToFail(o) {
						cscript = dropObligation(cscript, o.Seq) // recorded findings are not cross-checked
					}
				}
				if err := os.WriteFile(file, []byte(sv.Pre+cscript), 0o644); err != nil {
					continue
				}
				lim := 3000
				if strings.HasPrefix(sv.Name, "cvc5") {
					lim = 1000 // cvc5 answers the goals it can do at once; the rest would only sit out the limit
				}
				res, secs, _ := runScript(sv, file, lim, nobl)
				record(sv, secs)
				for _, o := range ps.Obls {
					if o.Trivial || o.Kind == "cover" {
						continue
					}
					switch res[o.Seq] {
					case "unsat":
						if o.Status == "unsat" && o.Solver != sv.Name {
							o.Confirm = append(o.Confirm, sv.Name)
						}
					case "sat":
						if o.Status == "unsat" {
							o.Status = "disagree(" + sv.Name + " answers sat)"
							stats.mu.Lock()
							stats.Disagree++
							stats.mu.Unlock()
						}
					}
				}
			}
			for _, o := range ps.Obls {
				if len(o.Confirm) > 0 {
					stats.mu.Lock()
					stats.Confirmed++
					stats.mu.Unlock()
				}
			}
		}()
	}
	// pass 2: every obligation that is not discharged, isolated, raced through all back ends in parallel
	if ps.Slow {
		perQueryMs *= 6
	}
	for _, o := range ps.Obls {
		if o.Trivial || o.Status == "unsat" {
			continue
		}
		if o.Kind == "cover" && o.Status != "" && o.Status != "unsat" {
			continue
		}
		iso := isolate(ps.Script, o.Seq)
		// an obligation nobody decides in the time limit gets one more round with three times the limit before it is
		// reported (timeouts under machine load must not turn into alarms); known findings and covers are exempt
		rounds := []int{perQueryMs, 3 * perQueryMs}
		if expectedToFail(o) || o.Kind == "cover" || retryOff || ps.Slow {
			rounds = rounds[:1]
		}
		for _, roundMs := range rounds {
			if o.Status == "unsat" || o.Status == "sat" {
				break
			}
			perQueryMs := roundMs
			type ans struct {
				sv   SolverCfg
				r    string
				ok   bool
				secs float64
				err  error
			}
			var cands []SolverCfg
			for _, sv := range solvers {
				if onlySolver != "" && !strings.HasPrefix(sv.Name, onlySolver) {
					continue
				}
				cands = append(cands, sv)
			}
			if (o.Kind == "cover" || expectedToFail(o)) && len(cands) > 1 {
				cands = cands[:1]
			}
			ch := make(chan ans, len(cands))
			ctx, cancel := context.WithCancel(context.Background())
			for _, sv := range cands {
				go func(sv SolverCfg) {
					file := fmt.Sprintf("%s.o%d.%s.smt2", base, o.Seq, sv.Name)
					if err := os.WriteFile(file, []byte(sv.Pre+iso), 0o644); err != nil {
						ch <- ans{sv: sv, err: err}
						return
					}
					ms := perQueryMs
					if o.Kind == "cover" {
						ms = 2000
					}
					if expectedToFail(o) && ms > 2000 {
						ms = 2000
					}
					res, secs, err := runScriptCtx(ctx, sv, file, ms, 1)
					r, ok := res[o.Seq]
					ch <- ans{sv: sv, r: r, ok: ok, secs: secs, err: err}
				}(sv)
			}
			decided := false
			for range cands {
				a := <-ch
				record(a.sv, a.secs)
				if decided {
					continue
				}
				if os.Getenv("GOVC_SLOW") != "" && a.secs > 2 {
					fmt.Fprintf(os.Stderr, "slow: %.1fs %s %s -> %v\n", a.secs, a.sv.Name, o.Name, a.r)
				}
				if a.err != nil && !a.ok {
					if o.Status == "" {
						o.Status = "error: " + a.err.Error()
					}
					continue
				}
				if !a.ok {
					continue
				}
				if a.r == "unsat" || a.r == "sat" || o.Status == "" || strings.HasPrefix(o.Status, "error") {
					o.Status = a.r
					o.Solver = a.sv.Name
					o.Secs = a.secs
				}
				if a.r == "unsat" || a.r == "sat" {
					decided = true
					cancel() // the other back ends are no longer needed
				}
			}
			cancel()
		}
	}
}
