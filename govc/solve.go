package main

import (
	"bytes"
	"context"
	"fmt"
	"os"
	"os/exec"
	"path/filepath"
	"regexp"
	"strconv"
	"strings"
	"sync"
	"time"
)

type SolverCfg struct {
	Name string
	Cmd  func(file string, perQueryMs int) []string
	Pre  string
}

var solvers = []SolverCfg{
	{Name: "z3-new-5.1.0-ematch", Cmd: func(f string, ms int) []string {
		return []string{"z3-new", "-smt2", fmt.Sprintf("-t:%d", ms), "smt.mbqi=false", f}
	}},
	{Name: "z3-new-5.1.0", Cmd: func(f string, ms int) []string {
		return []string{"z3-new", "-smt2", fmt.Sprintf("-t:%d", ms), f}
	}},
	{Name: "z3-4.8.12", Cmd: func(f string, ms int) []string {
		return []string{"z3", "-smt2", fmt.Sprintf("-t:%d", ms), f}
	}},
	{Name: "cvc5-1.0", Cmd: func(f string, ms int) []string {
		return []string{"cvc5", "--incremental", "--lang=smt2", fmt.Sprintf("--tlimit-per=%d", ms), f}
	}, Pre: "(set-logic ALL)\n"},
}

var oblRe = regexp.MustCompile(`^"?OBL (\d+) `)

// runScript runs one solver on a path script, returns per-seq answers.
func runScript(sv SolverCfg, file string, perQueryMs int, nobl int) (map[int]string, float64, error) {
	ctx, cancel := context.WithTimeout(context.Background(), time.Duration(perQueryMs*(nobl+2))*time.Millisecond+20*time.Second)
	defer cancel()
	argv := sv.Cmd(file, perQueryMs)
	cmd := exec.CommandContext(ctx, argv[0], argv[1:]...)
	var out bytes.Buffer
	cmd.Stdout = &out
	cmd.Stderr = &out
	t0 := time.Now()
	_ = cmd.Run()
	secs := time.Since(t0).Seconds()
	res := map[int]string{}
	cur := -1
	for _, line := range strings.Split(out.String(), "\n") {
		line = strings.TrimSpace(line)
		if m := oblRe.FindStringSubmatch(line); m != nil {
			cur, _ = strconv.Atoi(m[1])
			continue
		}
		switch line {
		case "sat", "unsat", "unknown", "timeout":
			if cur >= 0 {
				res[cur] = line
				cur = -1
			}
		default:
			if strings.HasPrefix(line, "(error") && cur >= 0 {
				res[cur] = "error: " + line
				cur = -1
			} else if strings.HasPrefix(line, "(error") {
				return res, secs, fmt.Errorf("%s: %s", sv.Name, line)
			}
		}
	}
	return res, secs, nil
}

type SolveStats struct {
	Scripts   int
	SolverSec map[string]float64
	mu        sync.Mutex
}

// solveAll discharges all path scripts of the given execs in parallel.
func solveAll(paths []*PathScript, workDir string, perQueryMs int, jobs int, onlySolver string, stats *SolveStats) {
	os.MkdirAll(workDir, 0o755)
	var wg sync.WaitGroup
	sem := make(chan struct{}, jobs)
	for _, ps := range paths {
		need := false
		for _, o := range ps.Obls {
			if !o.Trivial {
				need = true
			}
		}
		if !need {
			continue
		}
		wg.Add(1)
		sem <- struct{}{}
		go func(ps *PathScript) {
			defer wg.Done()
			defer func() { <-sem }()
			solvePath(ps, workDir, perQueryMs, onlySolver, stats)
		}(ps)
	}
	wg.Wait()
}

func solvePath(ps *PathScript, workDir string, perQueryMs int, onlySolver string, stats *SolveStats) {
	base := filepath.Join(workDir, fmt.Sprintf("%s.p%d", sanitize(ps.Func), ps.ID))
	nobl := 0
	for _, o := range ps.Obls {
		if !o.Trivial {
			nobl++
		}
	}
	pending := func() bool {
		for _, o := range ps.Obls {
			if o.Trivial {
				continue
			}
			if o.Kind == "cover" {
				if o.Status == "" {
					return true
				}
				continue
			}
			if o.Status != "unsat" {
				return true
			}
		}
		return false
	}
	for _, sv := range solvers {
		if onlySolver != "" && !strings.HasPrefix(sv.Name, onlySolver) {
			continue
		}
		if !pending() {
			break
		}
		file := base + "." + sv.Name + ".smt2"
		if err := os.WriteFile(file, []byte(sv.Pre+ps.Script), 0o644); err != nil {
			continue
		}
		res, secs, err := runScript(sv, file, perQueryMs, nobl)
		stats.mu.Lock()
		stats.Scripts++
		stats.SolverSec[sv.Name] += secs
		stats.mu.Unlock()
		if err != nil {
			for _, o := range ps.Obls {
				if !o.Trivial && o.Status == "" {
					o.Status = "error: " + err.Error()
				}
			}
			continue
		}
		for _, o := range ps.Obls {
			if o.Trivial {
				continue
			}
			r, ok := res[o.Seq]
			if !ok {
				continue
			}
			if o.Status == "unsat" {
				continue
			}
			if o.Kind == "cover" {
				// a cover probe is fine when it is not refuted; unsat means vacuity
				if o.Status == "" || r == "unsat" || r == "sat" {
					o.Status = r
					o.Solver = sv.Name
				}
				continue
			}
			if r == "unsat" || o.Status == "" || (r == "sat" && o.Status != "sat") {
				o.Status = r
				o.Solver = sv.Name
				o.Secs = secs / float64(nobl)
			}
		}
	}
}
