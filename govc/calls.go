package main

import (
	"fmt"
	"go/ast"
	"go/token"
	"go/types"
	"sort"
	"strings"

	"golang.org/x/tools/go/ssa"
)

// ---------------------------------------------------------------------------
// returns

func (ex *Exec) atReturn(st *State, r *ssa.Return) {
	var results []Term
	for _, v := range r.Results {
		results = append(results, ex.val(st, v))
	}
	for _, c := range ex.cons {
		if len(c.GReturn) == 0 {
			continue
		}
		e := ex.envFor(st, c)
		ex.bindSelf(st, c, e)
		for i, b := range c.Results {
			if i < len(results) {
				e.vars[b.Name] = BVal{Val: results[i]}
			}
		}
		eo := *e
		eo.cur = st.entry
		for _, l := range c.Lets {
			e.vars[l.Label] = (&eo).evalLetSafe(l)
		}
		for _, g := range c.GReturn {
			ex.ghostUpdate(st, e, g)
		}
	}
	// general contracts (included / refined) are judged first, the function's own postconditions last,
	// so that a specific clause that fails (and is then assumed) cannot mask a general one
	order := append(append([]*Contract{}, ex.cons[1:]...), ex.cons[0])
	for _, c := range order {
		e := ex.envFor(st, c)
		ex.bindSelf(st, c, e)
		if len(c.Results) != len(results) {
			ex.abort("STALE-CONTRACT: %s declares %d results, function returns %d", c.Name, len(c.Results), len(results))
		}
		for i, b := range c.Results {
			e.vars[b.Name] = BVal{Val: results[i]}
		}
		// lets are evaluated in the entry state
		eo := *e
		eo.cur = st.entry
		eo.vars = map[string]BVal{}
		for k, v := range e.vars {
			eo.vars[k] = v
		}
		for _, l := range c.Lets {
			lv := (&eo).evalLetSafe(l)
			e.vars[l.Label] = lv
			eo.vars[l.Label] = lv
		}
		for i, cl := range c.Ensures {
			if ex.con != nil && ex.con.Except[c.Target][cl.Label] && cl.Label != "" {
				continue // `include ... except`: this function does not promise that clause
			}
			name := fmt.Sprintf("ensures#%d", i+1)
			if cl.Label != "" {
				name = "ensures:" + cl.Label
			}
			if c != ex.con {
				name = "refines:" + c.Name + "/" + name
			}
			st.sc.comment("ensures %s", cl.Text)
			st.check(name, "ensures", e.eval(cl.Expr), cl.Text, cl.Props, r.Pos())
		}
	}
	if ex.fn.Synthetic == "package initializer" {
		if pc := ex.prog.PC[ex.pkgPath()]; pc != nil {
			for _, gi := range pc.GlobalInvs {
				e := &Env{st: st, pkgPath: gi.PkgPath, info: ex.prog.infoFor(gi.PkgPath), vars: map[string]BVal{}, cur: st.heap, old: st.entry, allocLo: st.alloc0}
				st.check("globalinv:"+gi.Name, "ensures", e.eval(gi.Requires[0].Expr), "package initialiser establishes the global invariant: "+gi.Requires[0].Text, gi.Props, r.Pos())
			}
		}
	}
	// type invariants of returned objects (constructors, setters returning the receiver)
	if ex.fn.Synthetic == "" {
		// ... and of the receiver, whose fields the method may have written
		if recv := ex.fn.Signature.Recv(); recv != nil && len(ex.fn.Params) > 0 {
			rv := st.vals[ex.fn.Params[0]]
			for _, ti := range ex.typeInvsFor(recv.Type()) {
				e := &Env{st: st, pkgPath: ti.PkgPath, info: ex.prog.infoFor(ti.PkgPath), vars: map[string]BVal{}, cur: st.heap, old: st.entry, allocLo: st.alloc0}
				e.vars[ti.Recv.Name] = BVal{Val: rv}
				st.check("typeinv/recv:"+ti.Name, "ensures", implies(neq(rv, st.u().zero(rv.Sort)), e.eval(ti.Requires[0].Expr)), "the receiver satisfies the type invariant at return: "+ti.Requires[0].Text, ti.Props, r.Pos())
			}
		}
		for i, v := range r.Results {
			for _, ti := range ex.typeInvsFor(v.Type()) {
				e := &Env{st: st, pkgPath: ti.PkgPath, info: ex.prog.infoFor(ti.PkgPath), vars: map[string]BVal{}, cur: st.heap, old: st.entry, allocLo: st.alloc0}
				e.vars[ti.Recv.Name] = BVal{Val: results[i]}
				st.check("typeinv:"+ti.Name, "ensures", implies(neq(results[i], st.u().zero(results[i].Sort)), e.eval(ti.Requires[0].Expr)), "returned object satisfies the type invariant: "+ti.Requires[0].Text, ti.Props, r.Pos())
			}
		}
	}
	st.check("cover/return", "cover", tFalse, "vacuity probe: this return must be reachable (expected sat)", nil, r.Pos())
}

func (e *Env) evalLetSafe(l *Clause) BVal {
	return BVal{Val: e.eval(l.Expr)}
}

// ---------------------------------------------------------------------------
// loops

func (ex *Exec) loopEnv(st *State, lp *Loop, phiVals map[*ssa.Phi]Term) *Env {
	c := ex.con
	e := ex.envFor(st, c)
	ex.bindSelf(st, c, e)
	eo := *e
	eo.cur = st.entry
	for _, l := range c.Lets {
		e.vars[l.Label] = (&eo).evalLetSafe(l)
	}
	if lp.Con == nil {
		return e
	}
	// first pass: binders are tied to variables by name
	var unbound []Binder
	byName := map[string]bool{}
	for _, ob := range lp.Con.Binders {
		byName[ob.Name] = true
	}
	var rangePhi *ssa.Phi
	for _, in := range lp.Header.Instrs {
		if phi, ok := in.(*ssa.Phi); ok && phi.Comment == "rangeindex" {
			rangePhi = phi
		}
	}
	rangeClaimed := false
	for _, b := range lp.Con.Binders {
		bound := false
		if b.Type == "rangeindex" {
			if rangePhi != nil {
				e.vars[b.Name] = BVal{Val: add(phiVals[rangePhi], intLit(1))}
				rangeClaimed = true
			} else {
				// the loop is an index loop now: its counter plays the part of the range index
				named := false
				for _, in := range lp.Header.Instrs {
					if phi, ok := in.(*ssa.Phi); ok && phi.Comment == b.Name && st.u().sortOf(phi.Type()) == SInt {
						e.vars[b.Name] = BVal{Val: phiVals[phi]}
						named = true
					}
				}
				if !named {
					unbound = append(unbound, b)
				}
			}
			continue
		}
		for _, in := range lp.Header.Instrs {
			if phi, ok := in.(*ssa.Phi); ok && phi.Comment == b.Name {
				e.vars[b.Name] = BVal{Val: phiVals[phi]}
				bound = true
			}
		}
		if !bound {
			if a, ok := ex.allocs[b.Name]; ok {
				if l, ok := st.locs[a]; ok {
					e.vars[b.Name] = BVal{Cell: &l}
					bound = true
				}
			}
		}
		if !bound {
			// a variable that is not loop-carried: look for a dominating SSA value named so
			for _, p := range ex.fn.Params {
				if p.Name() == b.Name {
					e.vars[b.Name] = BVal{Val: st.vals[p]}
					bound = true
				}
			}
		}
		if !bound {
			if v := ex.findNamedValue(st, b.Name, st.u().sortOf(ex.typeOfBinder(ex.con, b))); v != nil {
				e.vars[b.Name] = BVal{Val: *v}
				bound = true
			}
		}
		if !bound && strings.HasPrefix(b.Type, "[]") {
			// the (unnamed) slice a range loop iterates over
			if rs := ex.rangeSliceOf(lp); rs != nil {
				if t, ok := st.vals[rs]; ok {
					e.vars[b.Name] = BVal{Val: t}
					bound = true
				}
			}
		}
		if !bound && strings.HasPrefix(b.Type, "[]") {
			// the slice a former range loop iterated over, now indexed by hand: the only slice of that type
			// indexed inside the loop and defined before it
			var found []ssa.Value
			for _, blk := range ex.fn.Blocks {
				if !lp.Blocks[blk] {
					continue
				}
				for _, in := range blk.Instrs {
					if ia, ok := in.(*ssa.IndexAddr); ok {
						if _, isSlice := ia.X.Type().Underlying().(*types.Slice); !isSlice {
							continue
						}
						if xi, ok := ia.X.(ssa.Instruction); ok && lp.Blocks[xi.Block()] {
							continue
						}
						if t, ok := st.vals[ia.X]; ok && t.Sort == SSlice && types.Identical(ia.X.Type(), ex.typeOfBinder(ex.con, b)) {
							dup := false
							for _, f := range found {
								if f == ia.X {
									dup = true
								}
							}
							if !dup {
								found = append(found, ia.X)
							}
						}
					}
				}
			}
			if len(found) == 1 {
				e.vars[b.Name] = BVal{Val: st.vals[found[0]]}
				bound = true
			}
		}
		if !bound {
			unbound = append(unbound, b)
		}
	}
	// second pass: the variables were renamed, or the loop changed between a range loop and an index loop.
	// Binders left over are tied, sort by sort and in order of declaration, to the loop-carried variables no
	// binder names; a wrong guess cannot make anything pass that should not (the invariants are still
	// proved about whatever they are bound to), it can only leave the loop undecided.
	if len(unbound) > 0 {
		sortOfBinder := func(b Binder) Sort {
			if b.Type == "rangeindex" {
				return SInt
			}
			return st.u().sortOf(ex.typeOfBinder(ex.con, b))
		}
		type cand struct {
			phi  *ssa.Phi
			plus int64
		}
		cands := map[Sort][]cand{}
		for _, in := range lp.Header.Instrs {
			phi, ok := in.(*ssa.Phi)
			if !ok {
				continue
			}
			if phi.Comment == "rangeindex" {
				if !rangeClaimed {
					cands[SInt] = append(cands[SInt], cand{phi, 1})
				}
				continue
			}
			if !byName[phi.Comment] {
				s := st.u().sortOf(phi.Type())
				cands[s] = append(cands[s], cand{phi, 0})
			}
		}
		want := map[Sort][]Binder{}
		for _, b := range unbound {
			s := sortOfBinder(b)
			want[s] = append(want[s], b)
		}
		for s, bs := range want {
			cs := cands[s]
			if len(cs) != len(bs) {
				b := bs[0]
				if b.Type == "rangeindex" {
					ex.abort("STALE-CONTRACT: loop %d has no range index", lp.N)
				}
				ex.abort("STALE-CONTRACT: loop %d binder %s matches no loop-carried variable", lp.N, b.Name)
			}
			for i, b := range bs {
				v := phiVals[cs[i].phi]
				if cs[i].plus != 0 {
					v = add(v, intLit(cs[i].plus))
				}
				e.vars[b.Name] = BVal{Val: v}
			}
		}
	}
	return e
}

// findNamedValue finds an SSA value that the debug info ties to a source
// variable of the given name and that already has a term.
func (ex *Exec) findNamedValue(st *State, name string, want Sort) *Term {
	var found *Term
	for _, b := range ex.fn.Blocks {
		for _, in := range b.Instrs {
			if d, ok := in.(*ssa.DebugRef); ok && !d.IsAddr {
				if id, ok := d.Expr.(interface{ String() string }); ok {
					_ = id
				}
				if obj := d.Object(); obj != nil && obj.Name() == name {
					if t, ok := st.vals[d.X]; ok && t.Sort == want {
						tt := t
						found = &tt
					}
				}
			}
		}
	}
	return found
}

func (ex *Exec) atLoopHead(st *State, lp *Loop, predIdx int) bool {
	h := lp.Header
	if lp.Con == nil {
		// a loop the contract does not know (added after the contract was written): cut with the invariant `true`.
		// Everything the loop may write is havoced; its body is still checked for an arbitrary iteration (frame and
		// safety obligations), and whatever the function promises afterwards must follow without help.
		lp.Con = &LoopContract{N: lp.N}
	}
	// incoming phi values
	phiVals := map[*ssa.Phi]Term{}
	for _, in := range h.Instrs {
		if phi, ok := in.(*ssa.Phi); ok {
			phiVals[phi] = ex.val(st, phi.Edges[predIdx])
		}
	}
	back := st.loopSeen[h]
	e := ex.loopEnv(st, lp, phiVals)
	kind := "entry"
	if back {
		kind = "preserve"
	}
	if lp.Range != nil {
		e.vars["$iter"] = BVal{}
	}
	for i, cl := range lp.Con.Invariants {
		name := fmt.Sprintf("inv#%d.%d/%s", lp.N, i+1, kind)
		if cl.Label != "" {
			name = fmt.Sprintf("inv#%d:%s/%s", lp.N, cl.Label, kind)
		}
		st.sc.comment("invariant (%s) %s", kind, cl.Text)
		st.check(name, "invariant", ex.evalInv(st, e, lp, cl), cl.Text, cl.Props, h.Instrs[0].Pos())
	}
	if back {
		if lp.Con.Decreases != nil {
			// variant decreased and bounded below
			cur := e.eval(lp.Con.Decreases.Expr)
			prev := st.ghost["$variant"+fmt.Sprint(lp.N)]
			st.check(fmt.Sprintf("variant#%d/decreases", lp.N), "variant", and(lt(cur, prev), le(intLit(0), prev)), "loop variant decreases: "+lp.Con.Decreases.Text, nil, h.Instrs[0].Pos())
		}
		ex.finishPath(st, "backedge")
		return false
	}
	// first arrival: havoc loop targets, assume invariant, continue
	st.loopSeen[h] = true
	st.callsLost = true
	ex.havocLoop(st, lp)
	newPhi := map[*ssa.Phi]Term{}
	for _, in := range h.Instrs {
		if phi, ok := in.(*ssa.Phi); ok {
			if _, isTuple := st.tuples[phi.Edges[predIdx]]; isTuple {
				ex.abort("phi of tuples")
			}
			s := st.u().sortOf(phi.Type())
			v := st.sc.fresh("phi_"+phi.Comment, s)
			st.assumeWellFormed(v, phi.Type())
			st.vals[phi] = v
			delete(st.locs, phi)
			newPhi[phi] = v
		}
	}
	e2 := ex.loopEnv(st, lp, newPhi)
	for _, cl := range lp.Con.Invariants {
		st.sc.comment("assume invariant %s", cl.Text)
		st.sc.assert(ex.evalInv(st, e2, lp, cl))
	}
	if lp.Con.Decreases != nil {
		v := st.sc.fresh("variant", SInt)
		st.sc.assert(eq(v, e2.eval(lp.Con.Decreases.Expr)))
		st.ghost["$variant"+fmt.Sprint(lp.N)] = v
	}
	return true
}

func (ex *Exec) evalInv(st *State, e *Env, lp *Loop, cl *Clause) Term {
	if lp.Range != nil {
		if it := st.iters[lp.Range]; it != nil {
			st.ghost["$visited"] = Term{it.Visited, SBool}
			st.ghost["$itercount"] = it.Count
			e.ghost = st.ghost
		}
	}
	return e.eval(cl.Expr)
}

type loopMod struct {
	roots []ssa.Value
	wild  bool
}

func rootOfAddr(v ssa.Value) ssa.Value {
	for {
		switch t := v.(type) {
		case *ssa.Alloc, *ssa.MakeSlice, *ssa.MakeMap:
			return v
		case *ssa.FieldAddr:
			v = t.X
		case *ssa.IndexAddr:
			v = t.X
		case *ssa.Slice:
			v = t.X
		case *ssa.ChangeType:
			v = t.X
		default:
			return nil
		}
	}
}

// familiesOfStore: the heap families a store through addr may write
func (ex *Exec) familiesOfAddr(st *State, addr ssa.Value) []string {
	switch t := addr.(type) {
	case *ssa.FieldAddr:
		// if the base is itself a field/elem address, the family is the base's
		switch t.X.(type) {
		case *ssa.FieldAddr, *ssa.IndexAddr:
			return ex.familiesOfAddr(st, t.X)
		}
		pt := t.X.Type().Underlying().(*types.Pointer)
		si := st.u().structInfoOf(pt.Elem())
		return []string{st.fieldFam(si, t.Field).Name}
	case *ssa.IndexAddr:
		switch xt := t.X.Type().Underlying().(type) {
		case *types.Slice:
			return []string{st.elemFam(st.u().sortOf(xt.Elem())).Name}
		case *types.Pointer:
			at := xt.Elem().Underlying().(*types.Array)
			return []string{st.elemFam(st.u().sortOf(at.Elem())).Name}
		}
	}
	// whole object / cell
	pt, ok := addr.Type().Underlying().(*types.Pointer)
	if !ok {
		ex.abort("store through non-pointer")
	}
	if _, isStruct := pt.Elem().Underlying().(*types.Struct); isStruct {
		si := st.u().structInfoOf(pt.Elem())
		var out []string
		for i := range si.Fields {
			out = append(out, st.fieldFam(si, i).Name)
		}
		return out
	}
	return []string{st.cellFam(st.u().sortOf(pt.Elem())).Name}
}

func (ex *Exec) havocLoop(st *State, lp *Loop) {
	mods := map[string]*loopMod{}
	mark := func(fam string, root ssa.Value) {
		m := mods[fam]
		if m == nil {
			m = &loopMod{}
			mods[fam] = m
		}
		if root == nil {
			m.wild = true
		} else {
			m.roots = append(m.roots, root)
		}
	}
	var blocks []*ssa.BasicBlock
	for b := range lp.Blocks {
		blocks = append(blocks, b)
	}
	sort.Slice(blocks, func(i, j int) bool { return blocks[i].Index < blocks[j].Index })
	for _, b := range blocks {
		for _, in := range b.Instrs {
			switch t := in.(type) {
			case *ssa.Store:
				root := rootOfAddr(t.Addr)
				if root != nil && lp.Blocks[root.(ssa.Instruction).Block()] {
					continue // allocated inside the loop body: fresh each iteration
				}
				for _, f := range ex.familiesOfAddr(st, t.Addr) {
					mark(f, root)
				}
			case *ssa.MapUpdate:
				mt := t.Map.Type().Underlying().(*types.Map)
				d, v, l := st.mapFamsT(mt)
				root := rootOfAddr(t.Map)
				for _, f := range []*Family{d, v, l} {
					mark(f.Name, root)
				}
			case *ssa.Call:
				if g := ex.inlinable(t); g != nil && g != ex.fn {
					ex.inlinedMods(st, g, 1, mark)
					continue
				}
				for _, f := range ex.callModFamilies(st, t) {
					mark(f, nil)
				}
			}
		}
	}
	na := st.sc.fresh("alloc", SInt)
	st.sc.assert(ge(na, st.alloc))
	preAlloc := st.alloc
	_ = preAlloc
	st.alloc = na
	var fams []string
	for f := range mods {
		fams = append(fams, f)
	}
	sort.Strings(fams)
	for _, fam := range fams {
		m := mods[fam]
		f := st.fams[fam]
		isElem := strings.HasPrefix(fam, "E.")
		fargs := f.Args
		if isElem {
			fargs = []Sort{SInt, SInt}
		}
		fresh := st.sc.freshFun("havoc_"+fam, fargs, f.Res)
		st.havocClosure(f, fresh, fargs, st.alloc)
		freshAt := func(p []Term) Term {
			if isElem {
				a, abs := elemAbs(p)
				return app(f.Res, fresh, a, abs)
			}
			return app(f.Res, fresh, p...)
		}
		entrySym := st.symIn(st.entry, fam)
		var rootIDs []Term
		for _, r := range m.roots {
			if t, ok := st.vals[r]; ok {
				if t.Sort == SSlice {
					rootIDs = append(rootIDs, slArr(t))
				} else {
					rootIDs = append(rootIDs, t)
				}
			} else if l, ok := st.locs[r]; ok {
				rootIDs = append(rootIDs, l.Obj)
			} else {
				m.wild = true
			}
		}
		st.sc.comment("loop %d havoc %s (wild=%v, roots=%d)", lp.N, fam, m.wild, len(rootIDs))
		st.updateFamWhere(f, func(p []Term) Term {
			var cs []Term
			for _, r := range rootIDs {
				cs = append(cs, eq(p[0], r))
			}
			if m.wild {
				// everything may change except pre-existing, non-assignable memory
				cs = append(cs, tTrue)
			}
			return or(cs...)
		}, func(p []Term) Term {
			if m.wild {
				ft := frameTarget{Fam: fam, Obj: p[0]}
				if isElem {
					_, abs := elemAbs(p)
					ft.Idx = &abs
				}
				assignable := ex.assignableCond(st, ft)
				return ite(assignable, freshAt(p), app(f.Res, entrySym, p...))
			}
			return freshAt(p)
		})
	}
	// map iterator: visited set is loop-carried
	if lp.Range != nil {
		if it := st.iters[lp.Range]; it != nil {
			it.Visited = st.sc.freshFun("visited", []Sort{it.KSort}, SBool)
			it.Count = st.sc.fresh("itercount", SInt)
			st.sc.assert(le(intLit(0), it.Count))
		}
	}
}

// callModFamilies: heap families a call may write (statically, from the
// callee's assigns clauses / builtin semantics)
func (ex *Exec) callModFamilies(st *State, c *ssa.Call) []string {
	if bi, ok := c.Call.Value.(*ssa.Builtin); ok {
		switch bi.Name() {
		case "append", "copy":
			et := c.Call.Args[0].Type().Underlying().(*types.Slice).Elem()
			return []string{st.elemFam(st.u().sortOf(et)).Name}
		case "delete":
			mt := c.Call.Args[0].Type().Underlying().(*types.Map)
			d, v, l := st.mapFamsT(mt)
			return []string{d.Name, v.Name, l.Name}
		}
		return nil
	}
	con, _ := ex.resolveCallee(st, c, true)
	if con == nil {
		return nil
	}
	// evaluate the assigns clauses on a scratch state with dummy binders
	scratch := st.clone()
	scratch.ex = ex
	e := &Env{st: scratch, pkgPath: con.PkgPath, info: ex.prog.infoFor(con.PkgPath), vars: map[string]BVal{}, cur: scratch.heap, old: scratch.heap, allocLo: scratch.alloc}
	for _, b := range con.allBinders() {
		t := ex.typeOfBinder(con, b)
		s := st.u().sortOf(t)
		e.vars[b.Name] = BVal{Val: scratch.sc.fresh("dummy", s)}
	}
	for _, l := range con.Lets {
		e.vars[l.Label] = e.evalLetSafe(l)
	}
	var out []string
	seen := map[string]bool{}
	var allAssigns []*Clause
	allAssigns = append(allAssigns, con.Assigns...)
	for _, cl := range allAssigns {
		for _, ls := range e.evalAssignsClause(cl) {
			if !seen[ls.Fam] {
				seen[ls.Fam] = true
				out = append(out, ls.Fam)
				// make sure the family exists in the real state too
				sf := scratch.fams[ls.Fam]
				st.family(sf.Name, sf.Args, sf.Res)
			}
		}
	}
	return out
}

// typeOfBinder: Go type of a contract binder (from the synthetic function's
// parameter list of the first clause of the contract)
func (ex *Exec) typeOfBinder(c *Contract, b Binder) types.Type {
	pk := ex.prog.Pkgs[c.PkgPath]
	tv, err := types.Eval(pk.Fset, pk.Types, token.NoPos, strings.TrimPrefix(b.Type, "..."))
	if err == nil && tv.Type != nil {
		if strings.HasPrefix(b.Type, "...") {
			return types.NewSlice(tv.Type)
		}
		return tv.Type
	}
	// types.Eval at package scope cannot see imports of the synthetic file: evaluate inside that file
	for i, f := range pk.Syntax {
		if strings.HasSuffix(pk.CompiledGoFiles[i], "zz_govc_synth_verif.go") {
			tv, err := types.Eval(pk.Fset, pk.Types, f.Name.End(), strings.TrimPrefix(b.Type, "..."))
			if err == nil && tv.Type != nil {
				if strings.HasPrefix(b.Type, "...") {
					return types.NewSlice(tv.Type)
				}
				return tv.Type
			}
		}
	}
	// fall back to searching a clause function's signature
	allCls := [][]*Clause{c.Requires, c.Ensures, c.Assigns, c.Lets}
	for _, lc := range c.Loops {
		allCls = append(allCls, lc.Invariants)
	}
	for _, cls := range allCls {
		for _, cl := range cls {
			if obj := pk.Types.Scope().Lookup(cl.FnName); obj != nil {
				sig := obj.Type().(*types.Signature)
				for i := 0; i < sig.Params().Len(); i++ {
					if sig.Params().At(i).Name() == b.Name {
						return sig.Params().At(i).Type()
					}
				}
			}
		}
	}
	ex.abort("cannot resolve type %s of binder %s in contract %s", b.Type, b.Name, c.Name)
	return nil
}

// partOf: the name under which an instance of a call's frame obligation is reported (and matched against the
// `parts` of a known finding): a type-level region by its description -- fields[T], elems[T]: stable when a type is
// added --, anything else by its heap family
func partOf(ls LocSet) string {
	if ls.Region && ls.Desc != "" {
		return ls.Desc
	}
	return ls.Fam
}

// ---------------------------------------------------------------------------
// calls

// resolveCallee finds the contract governing a call. It returns the contract
// and the capture bindings (for closures created in this function).
func (ex *Exec) resolveCallee(st *State, c *ssa.Call, quiet bool) (*Contract, []ssa.Value) {
	cc := c.Common()
	if cc.IsInvoke() {
		// interface method call
		it := cc.Value.Type()
		key := ifaceMethodKey(it, cc.Method.Name())
		if con := ex.prog.Contracts[key]; con != nil {
			return con, nil
		}
		if !quiet {
			ex.abort("no interface contract %q for dynamic call", key)
		}
		return nil, nil
	}
	switch f := cc.Value.(type) {
	case *ssa.Function:
		key := keyOfFunction(f)
		if con := ex.prog.Contracts[key]; con != nil {
			return con, nil
		}
		// external function: assumed contract keyed pkg.Name or pkg.(T).Name
		if con := ex.prog.Contracts[externalKey(f)]; con != nil {
			return con, nil
		}
		if !quiet {
			ex.abort("call of %s: callee has no contract (key %q / %q)", f.String(), key, externalKey(f))
		}
		return nil, nil
	case *ssa.MakeClosure:
		fn := f.Fn.(*ssa.Function)
		key := keyOfFunction(fn)
		if con := ex.prog.Contracts[key]; con != nil {
			return con, f.Bindings
		}
		if !quiet {
			ex.abort("call of closure %s: no contract", key)
		}
		return nil, nil
	}
	// a function stored in a struct field: contract keyed by the field
	if ld, ok := cc.Value.(*ssa.UnOp); ok && ld.Op == token.MUL {
		if fa, ok := ld.X.(*ssa.FieldAddr); ok {
			if pt, ok := fa.X.Type().Underlying().(*types.Pointer); ok {
				if nt, ok := pt.Elem().(*types.Named); ok {
					st2 := nt.Underlying().(*types.Struct)
					key := nt.Obj().Pkg().Name() + "." + nt.Obj().Name() + "." + st2.Field(fa.Field).Name()
					if con := ex.prog.Contracts[key]; con != nil {
						return con, nil
					}
				}
			}
		}
	}
	// dynamic call through a function value: contract of its named type, or
	// a callee contract declared for the parameter
	t := cc.Value.Type()
	if nt, ok := t.(*types.Named); ok {
		key := nt.Obj().Pkg().Name() + "." + nt.Obj().Name()
		if con := ex.prog.Contracts[key]; con != nil {
			return con, nil
		}
	}
	if p, ok := cc.Value.(*ssa.Parameter); ok {
		key := ex.key + "#" + p.Name()
		if con := ex.prog.Contracts[key]; con != nil {
			return con, nil
		}
	}
	if !quiet {
		ex.abort("dynamic call through %s (%s): no functype contract", cc.Value.Name(), t)
	}
	return nil, nil
}

func ifaceMethodKey(it types.Type, method string) string {
	if nt, ok := it.(*types.Named); ok && nt.Obj().Pkg() != nil {
		return nt.Obj().Pkg().Name() + "." + nt.Obj().Name() + "." + method
	}
	return it.String() + "." + method
}

func externalKey(f *ssa.Function) string {
	pkg := ""
	if f.Pkg != nil {
		pkg = f.Pkg.Pkg.Path()
	} else if f.Object() != nil && f.Object().Pkg() != nil {
		pkg = f.Object().Pkg().Path()
	}
	if recv := f.Signature.Recv(); recv != nil {
		t := recv.Type()
		ptr := ""
		if pt, ok := t.(*types.Pointer); ok {
			ptr = "*"
			t = pt.Elem()
		}
		tn := t.String()
		if nt, ok := t.(*types.Named); ok {
			tn = nt.Obj().Name()
		}
		return pkg + ".(" + ptr + tn + ")." + f.Name()
	}
	return pkg + "." + f.Name()
}

func (ex *Exec) call(st *State, c *ssa.Call) {
	cc := c.Common()
	if bi, ok := cc.Value.(*ssa.Builtin); ok {
		ex.builtin(st, c, bi)
		return
	}
	if f, ok := cc.Value.(*ssa.Function); ok && f.Synthetic == "package initializer" {
		// initialisers of imported packages write only their own package's variables (assumed)
		return
	}
	con, bindings := ex.resolveCallee(st, c, false)
	var args []Term
	var argTypes []types.Type
	if cc.IsInvoke() {
		args = append(args, ex.val(st, cc.Value))
		argTypes = append(argTypes, cc.Value.Type())
	}
	for _, a := range cc.Args {
		args = append(args, ex.val(st, a))
		argTypes = append(argTypes, a.Type())
	}
	// obligations of a call are named by the callee's name and its per-name ordinal (call:Parse#1), which
	// unrelated edits of the function do not shift
	tag := ex.anchorOf(st, c)
	if tag == "" {
		tag = fmt.Sprintf("call#%d:%s", ex.ordinal[c], con.Name)
	}
	ex.applyContract(st, c, con, bindings, args, tag, cc.Value)
}

// expandContract: the contract followed by everything it includes (transitively).
func (p *Program) expandContract(c *Contract) []*Contract {
	var out []*Contract
	seen := map[*Contract]bool{}
	var rec func(c *Contract)
	rec = func(c *Contract) {
		if seen[c] {
			return
		}
		seen[c] = true
		out = append(out, c)
		for _, inc := range c.Includes {
			ic := p.Contracts[inc]
			if ic == nil {
				panic(execAbort{fmt.Sprintf("contract %s includes unknown contract %s", c.Name, inc)})
			}
			rec(ic)
		}
	}
	rec(c)
	return out
}

// mentionsCallLog: does a clause talk about the verified function's own call log (ncalls/callarg/callres)?
func mentionsCallLog(x ast.Expr) bool {
	found := false
	ast.Inspect(x, func(n ast.Node) bool {
		if id, ok := n.(*ast.Ident); ok && (id.Name == "ncalls" || id.Name == "callarg" || id.Name == "callres") {
			found = true
		}
		return !found
	})
	return found
}

// applyContract: assert requires, frame-check and havoc assigns, assume ensures.
func (ex *Exec) applyContract(st *State, c *ssa.Call, con0 *Contract, bindings []ssa.Value, args []Term, tag string, fval ssa.Value) {
	cons := ex.prog.expandContract(con0)
	var argVals []ssa.Value
	if c != nil {
		cc := c.Common()
		if cc.IsInvoke() {
			argVals = append(argVals, cc.Value)
		}
		argVals = append(argVals, cc.Args...)
	}
	pos := token.NoPos
	if c != nil {
		pos = c.Pos()
	}
	envs := make([]*Env, len(cons))
	for ci, con := range cons {
		e := &Env{st: st, pkgPath: con.PkgPath, info: ex.prog.infoFor(con.PkgPath), vars: map[string]BVal{}, cur: st.heap, old: st.heap, ghost: st.ghost, ghost0: st.ghost, allocLo: st.alloc}
		envs[ci] = e
		bs := []Binder{}
		if con.Recv != nil {
			bs = append(bs, *con.Recv)
		}
		bs = append(bs, con.Params...)
		off := 0
		if len(bs) == len(args)+1 && con.Kind == "interface" {
			// an interface-method contract applied to a plain function value: the receiver binder is the function value
			t := ex.typeOfBinder(con, bs[0])
			sv := st.sc.fresh("self", st.u().sortOf(t))
			st.sc.ensureSort(sv.Sort)
			st.sc.assert(neq(sv, st.u().zero(sv.Sort)))
			e.vars[bs[0].Name] = BVal{Val: sv}
			off = 1
		} else if len(bs) == len(args)+1 && con.Kind == "functype" && fval != nil {
			// functype contract with a leading `self` binder: the function value being called
			e.vars[bs[0].Name] = BVal{Val: ex.val(st, fval), SSA: fval}
			off = 1
		} else if len(bs) != len(args) {
			ex.abort("STALE-CONTRACT: contract %s has %d parameters, call passes %d", con.Name, len(bs), len(args))
		}
		for i, b := range bs[off:] {
			bv := BVal{Val: args[i]}
			if i < len(argVals) {
				bv.SSA = argVals[i]
			}
			e.vars[b.Name] = bv
		}
		if con.Parent != nil {
			pe := ex.envFor(st, con.Parent)
			ex.bindSelf(st, con.Parent, pe)
			for k, v := range pe.vars {
				if _, dup := e.vars[k]; !dup {
					e.vars[k] = v
				}
			}
		}
		if len(con.Captures) > 0 {
			if bindings == nil {
				ex.abort("call of closure %s with captures through an unknown function value", con.Name)
			}
			if len(bindings) < len(con.Captures) {
				ex.abort("STALE-CONTRACT: closure %s captures %d variables, contract declares %d", con.Name, len(bindings), len(con.Captures))
			}
			for _, b := range con.Captures {
				l := ex.locOf(st, bindings[ex.captureIndex(con, nil, b.Name)])
				e.vars[b.Name] = BVal{Cell: &l}
			}
		}
		for _, l := range con.Lets {
			e.vars[l.Label] = e.evalLetSafe(l)
		}
	}
	// 0. function-typed arguments must refine the callee contract declared for the parameter
	{
		con := cons[0]
		bs := []Binder{}
		if con.Recv != nil {
			bs = append(bs, *con.Recv)
		}
		bs = append(bs, con.Params...)
		for k, b := range bs {
			kc := ex.prog.Contracts[con.Target+"#"+b.Name]
			if kc == nil || k >= len(argVals) {
				continue
			}
			ex.checkRefinement(st, envs[0], kc, argVals[k], tag+"#"+b.Name, pos)
		}
	}
	// 0b. objects with a type invariant handed to a function of the declaring package satisfy it
	if con0.Kind == "func" && c != nil {
		for k, av := range argVals {
			if k >= len(args) {
				break
			}
			for _, ti := range ex.typeInvsIn(con0.PkgPath, av.Type()) {
				e := &Env{st: st, pkgPath: ti.PkgPath, info: ex.prog.infoFor(ti.PkgPath), vars: map[string]BVal{}, cur: st.heap, old: st.heap, allocLo: st.alloc}
				e.vars[ti.Recv.Name] = BVal{Val: args[k]}
				st.check(fmt.Sprintf("typeinv@%s/%s", tag, ti.Name), "pre", implies(neq(args[k], st.u().zero(args[k].Sort)), e.eval(ti.Requires[0].Expr)), "object passed to "+con0.Name+" satisfies the type invariant: "+ti.Requires[0].Text, ti.Props, pos)
			}
		}
	}
	// 1. preconditions
	for ci, con := range cons {
		for k, cl := range con.Requires {
			name := fmt.Sprintf("pre@%s/#%d", tag, k+1)
			if cl.Label != "" {
				name = fmt.Sprintf("pre@%s/%s", tag, cl.Label)
			}
			if ci > 0 {
				name = fmt.Sprintf("pre@%s/%s/%s", tag, con.Name, strings.TrimPrefix(name, "pre@"+tag+"/"))
			}
			st.sc.comment("callee requires %s", cl.Text)
			st.check(name, "pre", envs[ci].eval(cl.Expr), "precondition of "+con.Name+": "+cl.Text, cl.Props, pos)
		}
	}
	// 2. frame + havoc
	pre := copyMap(st.heap)
	preAlloc := st.alloc
	na := st.sc.fresh("alloc", SInt)
	st.sc.assert(ge(na, st.alloc))
	var locsets []LocSet
	for ci, con := range cons {
		for _, cl := range con.Assigns {
			locsets = append(locsets, envs[ci].evalAssignsClause(cl)...)
		}
	}
	if len(locsets) > 0 {
		fname := fmt.Sprintf("frame/%s", tag)
		fdesc := "callee " + con0.Name + " writes only memory this function may write"
		any := false
		for _, ls := range locsets {
			ft := frameTarget{Fam: ls.Fam, Obj: ls.Obj}
			if ls.Ghost {
				continue // ghost state is not subject to the frame
			}
			if ls.Region {
				ok := false
				for _, mine := range ex.assign {
					if mine.Fam == ls.Fam && mine.Region && (mine.ArrType == 0 || mine.ArrType == ls.ArrType) {
						ok = true
					}
				}
				st.checkPart(fname, "frame", boolLit(ok), fdesc, nil, pos, partOf(ls))
				any = true
				continue
			}
			if ls.Ranged {
				lo, hi := ls.Lo, ls.Hi
				ft.Lo, ft.Hi = &lo, &hi
			}
			if ls.Owner != nil {
				// every cell owned by the closure must be writable here
				ov := Term{"o!own", SInt}
				ft.Obj = ov
				ac := ex.assignableCond(st, ft)
				st.checkPart(fname, "frame", Term{fmt.Sprintf("(forall ((o!own Int)) (! (=> %s %s) :pattern (%s)))", ls.member(ov).S, ac.S, ls.member(ov).S), SBool}, fdesc, nil, pos, ls.Fam)
				any = true
				continue
			}
			ac := ex.assignableCond(st, ft)
			if ls.Guard != nil {
				ac = implies(*ls.Guard, ac)
			}
			st.checkPart(fname, "frame", ac, fdesc, nil, pos, ls.Fam)
			any = true
		}
		if !any {
			st.check(fname, "frame", tTrue, fdesc, nil, pos)
		}
		byFam := map[string][]LocSet{}
		var order []string
		for _, ls := range locsets {
			if _, ok := byFam[ls.Fam]; !ok {
				order = append(order, ls.Fam)
			}
			byFam[ls.Fam] = append(byFam[ls.Fam], ls)
		}
		for _, fam := range order {
			f := st.fams[fam]
			isElem := strings.HasPrefix(fam, "E.")
			fargs := f.Args
			if isElem {
				fargs = []Sort{SInt, SInt}
			}
			fresh := st.sc.freshFun("post_"+fam, fargs, f.Res)
			st.havocClosure(f, fresh, fargs, na)
			lss := byFam[fam]
			st.updateFamWhere(f, func(p []Term) Term {
				var cs []Term
				for _, ls := range lss {
					if ls.Region {
						if ls.ArrType != 0 && isElem {
							st.declArrType()
							cs = append(cs, eq(app(SInt, "arr.type", p[0]), intLit(int64(ls.ArrType))))
						} else {
							cs = append(cs, tTrue)
						}
						continue
					}
					g := tTrue
					if ls.Guard != nil {
						g = *ls.Guard
					}
					if isElem {
						_, abs := elemAbs(p)
						c := and(g, eq(p[0], ls.Obj))
						if ls.Ranged {
							c = and(c, le(ls.Lo, abs), lt(abs, ls.Hi))
						}
						cs = append(cs, c)
						continue
					}
					cs = append(cs, and(g, ls.member(p[0])))
				}
				return or(cs...)
			}, func(p []Term) Term {
				if isElem {
					a, abs := elemAbs(p)
					return app(f.Res, fresh, a, abs)
				}
				return app(f.Res, fresh, p...)
			})
		}
	}
	st.alloc = na
	// 3. results
	var results []Term
	if c != nil {
		sig := c.Common().Signature()
		for k := 0; k < sig.Results().Len(); k++ {
			rt := sig.Results().At(k).Type()
			s := st.u().sortOf(rt)
			r := st.sc.fresh("ret_"+sanitize(con0.Name), s)
			st.assumeWellFormed(r, rt)
			results = append(results, r)
		}
	}
	// 4. postconditions: cur = post state, old = pre state
	for ci, con := range cons {
		if len(con.Results) != len(results) {
			ex.abort("STALE-CONTRACT: contract %s declares %d results, callee returns %d", con.Name, len(con.Results), len(results))
		}
		e := envs[ci]
		for k, b := range con.Results {
			e.vars[b.Name] = BVal{Val: results[k]}
		}
		e.cur = st.heap
		e.old = pre
		e.allocLo = preAlloc
		for _, cl := range con.Ensures {
			if con0.Except[con.Target][cl.Label] && cl.Label != "" {
				continue
			}
			if mentionsCallLog(cl.Expr) {
				continue // a statement about the callee's own call log says nothing the caller can use
			}
			st.sc.comment("callee ensures %s", cl.Text)
			st.sc.assert(e.eval(cl.Expr))
		}
	}
	// objects returned by a function of a package that declares a type invariant satisfy it (checked at its returns)
	if con0.Kind == "func" && c != nil {
		sig := c.Common().Signature()
		for k := range results {
			for _, ti := range ex.typeInvsIn(con0.PkgPath, sig.Results().At(k).Type()) {
				e := &Env{st: st, pkgPath: ti.PkgPath, info: ex.prog.infoFor(ti.PkgPath), vars: map[string]BVal{}, cur: st.heap, old: st.heap, allocLo: st.alloc}
				e.vars[ti.Recv.Name] = BVal{Val: results[k]}
				st.sc.comment("type invariant of the returned object")
				st.sc.assert(implies(neq(results[k], st.u().zero(results[k].Sort)), e.eval(ti.Requires[0].Expr)))
			}
		}
	}
	if c != nil {
		switch len(results) {
		case 0:
		case 1:
			st.vals[c] = results[0]
		default:
			st.tuples[c] = results
		}
		cc := c.Common()
		st.lastCall = &CallRec{Args: args, Results: results, Target: con0.Target}
		_, isFn := cc.Value.(*ssa.Function)
		_, isClo := cc.Value.(*ssa.MakeClosure)
		logs := []string{"parsley.Parser.Parse"}
		explicit := ex.con != nil && len(ex.con.Logs) > 0
		if explicit {
			logs = ex.con.Logs
		}
		if explicit || cc.IsInvoke() || (!isFn && !isClo) {
			// the call log records the calls governed by the logged contracts (default: the Parser contract)
		outer:
			for _, x := range cons {
				for _, l := range logs {
					if x.Target == l || strings.HasSuffix(x.Target, "/"+l) || strings.HasSuffix(x.Target, "."+l) {
						rec := CallRec{Args: args, Results: results, Target: x.Target}
						if !cc.IsInvoke() && x.Kind == "interface" {
							rec.Args = append([]Term{intLit(0)}, args...)
						}
						st.calls = append(st.calls, rec)
						break outer
					}
				}
			}
		}
	}
}

// ---------------------------------------------------------------------------
// builtins

func (ex *Exec) builtin(st *State, c *ssa.Call, bi *ssa.Builtin) {
	args := c.Call.Args
	ord := ex.ordinal[c]
	switch bi.Name() {
	case "len":
		x := ex.val(st, args[0])
		switch x.Sort {
		case SSlice:
			st.vals[c] = slLen(x)
		case SStr:
			st.vals[c] = app(SInt, "gstr.len", x)
		case SInt:
			mt := args[0].Type().Underlying().(*types.Map)
			_, _, l := st.mapFamsT(mt)
			r := st.sc.fresh("maplen", SInt)
			st.sc.assert(eq(r, st.readFam(st.heap, l, x)))
			st.sc.assert(le(intLit(0), r))
			{
				// a map of length 0 has no key (Go maps are finite: len is the number of keys)
				d, _, _ := st.mapFamsT(mt)
				st.sc.nfresh++
				kv := Term{fmt.Sprintf("k!m%d", st.sc.nfresh), st.u().sortOf(mt.Key())}
				st.sc.ensureSort(kv.Sort)
				st.sc.emit("(assert (=> (= %s 0) (forall ((%s %s)) (not %s))))", r.S, kv.S, kv.Sort, st.readFam(st.heap, d, x, kv).S)
			}
			st.vals[c] = r
		default:
			ex.abort("len of %s", args[0].Type())
		}
	case "cap":
		st.vals[c] = slCap(ex.val(st, args[0]))
	case "append":
		ex.appendOp(st, c, ord)
	case "copy":
		dst := ex.val(st, args[0])
		et := args[0].Type().Underlying().(*types.Slice).Elem()
		f := st.elemFam(st.u().sortOf(et))
		var srcLen Term
		var srcAt func(j Term) Term
		if isStringType(args[1].Type()) {
			s := ex.val(st, args[1])
			srcLen = app(SInt, "gstr.len", s)
			srcAt = func(j Term) Term { return app(SInt, "gstr.at", s, j) }
		} else {
			src := ex.val(st, args[1])
			srcLen = slLen(src)
			oldSnap := copyMap(st.heap)
			srcAt = func(j Term) Term { return st.getElem(oldSnap, f, src, j) }
		}
		n := st.sc.fresh("copy_n", SInt)
		st.sc.assert(eq(n, ite(le(slLen(dst), srcLen), slLen(dst), srcLen)))
		lo, hi := slOff(dst), add(slOff(dst), n)
		ex.frameCheck(st, fmt.Sprintf("frame/copy#%d", ord), c.Pos(), args[0], []frameTarget{{Fam: f.Name, Obj: slArr(dst), Lo: &lo, Hi: &hi}})
		st.updateElems(f, slArr(dst), lo, hi, tTrue, func(abs Term) Term { return srcAt(sub(abs, lo)) })
		if !isStringType(args[1].Type()) {
			// forward trigger: a known source element determines the destination element
			j := Term{"j!c", SInt}
			srcT := srcAt(j)
			st.sc.emit("(assert (forall ((j!c Int)) (! (=> (and (<= 0 j!c) (< j!c %s)) (= %s %s)) :pattern (%s))))", n.S, st.getElem(st.heap, f, dst, j).S, srcT.S, srcT.S)
		}
		st.vals[c] = n
	case "delete":
		mt := args[0].Type().Underlying().(*types.Map)
		m := ex.val(st, args[0])
		k := ex.val(st, args[1])
		d, vf, l := st.mapFamsT(mt)
		_ = vf
		ex.frameCheck(st, fmt.Sprintf("frame/delete#%d", ord), c.Pos(), args[0], []frameTarget{{Fam: d.Name, Obj: m}, {Fam: l.Name, Obj: m}})
		was := st.readFam(st.heap, d, m, k)
		oldLen := st.readFam(st.heap, l, m)
		st.writeFam(l, []Term{m}, ite(was, sub(oldLen, intLit(1)), oldLen))
		st.updateFamWhere(d, func(p []Term) Term { return and(neq(m, intLit(0)), eq(p[0], m), eq(p[1], k)) }, func(p []Term) Term { return tFalse })
	default:
		ex.abort("builtin %s is outside the verified subset", bi.Name())
	}
}

// appendOp: Go's exact append semantics. If the spare capacity suffices the
// elements are written in place into the shared backing array, otherwise a
// fresh array is allocated and the prefix copied.
func (ex *Exec) appendOp(st *State, c *ssa.Call, ord int) {
	args := c.Call.Args
	s := ex.val(st, args[0])
	et := args[0].Type().Underlying().(*types.Slice).Elem()
	f := st.elemFam(st.u().sortOf(et))
	oldSnapS := copyMap(st.heap)
	var n Term
	var srcAt func(j Term) Term
	if isStringType(args[1].Type()) {
		x := ex.val(st, args[1])
		n = app(SInt, "gstr.len", x)
		srcAt = func(j Term) Term { return app(SInt, "gstr.at", x, j) }
	} else {
		x := ex.val(st, args[1])
		n = slLen(x)
		oldSnap := copyMap(st.heap)
		srcAt = func(j Term) Term { return st.getElem(oldSnap, f, x, j) }
	}
	nn := st.sc.fresh("app_n", SInt)
	st.sc.assert(eq(nn, n))
	n = nn
	inplace := st.sc.fresh("app_inplace", SBool)
	newLen := add(slLen(s), n)
	// appending nothing returns the slice unchanged; otherwise in place iff it fits
	st.sc.assert(eq(inplace, le(newLen, slCap(s))))
	id := ex.newObject(st, "apparr")
	ncap := st.sc.fresh("app_cap", SInt)
	st.sc.assert(and(ge(ncap, newLen), le(ncap, T(SInt, "281474976710656"))))
	lo := add(slOff(s), slLen(s))
	hi := add(lo, n)
	// frame: the in-place case writes cells [off+len, off+len+n) of the shared array
	ft := frameTarget{Fam: f.Name, Obj: slArr(s), Lo: &lo, Hi: &hi}
	name := fmt.Sprintf("frame/append#%d", ord)
	if isSyntacticallyFresh(args[0]) {
		st.check(name, "frame", tTrue, "append into an array allocated by this call (syntactic)", nil, c.Pos())
	} else {
		st.check(name, "frame", implies(and(inplace, gt(n, intLit(0))), ex.assignableCond(st, ft)), "in-place append writes only spare capacity this function may write", nil, c.Pos())
	}
	st.updateFamWhere(f, func(p []Term) Term {
		a, abs := elemAbs(p)
		return or(
			and(inplace, eq(a, slArr(s)), le(lo, abs), lt(abs, hi)),
			and(not(inplace), eq(a, id)))
	}, func(p []Term) Term {
		_, abs := elemAbs(p)
		return ite(inplace,
			srcAt(sub(abs, lo)),
			ite(lt(abs, slLen(s)), st.getElem(oldSnapS, f, s, abs),
				ite(lt(abs, newLen), srcAt(sub(abs, slLen(s))), st.u().zero(f.Res))))
	})
	res := st.sc.fresh("app_res", SSlice)
	st.sc.assert(eq(res, ite(inplace, mkSlice(slArr(s), slOff(s), newLen, slCap(s)), mkSlice(id, intLit(0), newLen, ncap))))
	st.vals[c] = res
	if b, ok := et.Underlying().(*types.Basic); ok && b.Kind() == types.Uint8 {
		// appending to a byte slice: the text of the result is the text of the old slice followed by the text appended,
		// and the text of every slice over another array is what it was
		var srcStr Term
		if isStringType(args[1].Type()) {
			srcStr = ex.val(st, args[1])
		} else {
			srcStr = st.stringOfBytes(oldSnapS, ex.val(st, args[1]))
		}
		oldStr := st.stringOfBytes(oldSnapS, s)
		newStr := st.stringOfBytes(st.heap, res)
		st.sc.assert(eq(newStr, app(SStr, "gstr.cat", oldStr, srcStr)))
		oldOf, newOf := "gstr.of."+st.symIn(oldSnapS, f.Name), "gstr.of."+st.symIn(st.heap, f.Name)
		st.sc.emit("(assert (forall ((a Int) (o Int) (l Int)) (! (=> (and (not (= a %[3]s)) (not (= a %[4]s))) (= (%[1]s a o l) (%[2]s a o l))) :pattern ((%[1]s a o l)))))", newOf, oldOf, slArr(s).S, id.S)
	}
	{
		// forward triggers: known elements of the old slice / of the appended values determine elements of the result
		j := Term{"j!a", SInt}
		oldT := st.getElem(oldSnapS, f, s, j)
		st.sc.emit("(assert (forall ((j!a Int)) (! (=> (and (<= 0 j!a) (< j!a (s-len %s))) (= %s %s)) :pattern (%s))))", s.S, st.getElem(st.heap, f, res, j).S, oldT.S, oldT.S)
		if !isStringType(args[1].Type()) {
			srcT := srcAt(j)
			st.sc.emit("(assert (forall ((j!a Int)) (! (=> (and (<= 0 j!a) (< j!a %s)) (= %s %s)) :pattern (%s))))", n.S, st.getElem(st.heap, f, res, add(slLen(s), j)).S, srcT.S, srcT.S)
		}
	}
}

// closureContract: contract and capture bindings of a statically known function value
func (ex *Exec) closureContract(v ssa.Value) (*Contract, []ssa.Value) {
	for {
		switch t := v.(type) {
		case *ssa.MakeClosure:
			return ex.prog.Contracts[keyOfFunction(t.Fn.(*ssa.Function))], t.Bindings
		case *ssa.Function:
			return ex.prog.Contracts[keyOfFunction(t)], nil
		case *ssa.ChangeType:
			v = t.X
		default:
			return nil, nil
		}
	}
}

func (ex *Exec) closureEnv(st *State, fc *Contract, bindings []ssa.Value, base *Env) *Env {
	fe := &Env{st: st, pkgPath: fc.PkgPath, info: ex.prog.infoFor(fc.PkgPath), vars: map[string]BVal{}, cur: base.cur, old: base.cur, ghost: base.ghost, ghost0: base.ghost, allocLo: base.allocLo}
	if len(fc.Captures) > len(bindings) {
		ex.abort("STALE-CONTRACT: closure %s captures %d variables, contract declares %d", fc.Name, len(bindings), len(fc.Captures))
	}
	for _, b := range fc.Captures {
		l := ex.locOf(st, bindings[ex.captureIndex(fc, nil, b.Name)])
		fe.vars[b.Name] = BVal{Cell: &l}
	}
	return fe
}

// checkRefinement: the function value passed for a function-typed parameter
// must accept everything the callee contract allows (pre) and guarantee
// everything it promises (post); only closures that assign nothing are supported.
func (ex *Exec) checkRefinement(st *State, outer *Env, kc0 *Contract, fval ssa.Value, tag string, pos token.Pos) {
	if prm, ok := fval.(*ssa.Parameter); ok {
		// a function-typed parameter handed on: its own callee contract must include whatever the callee contract
		// of the receiving parameter consists of (both are wrappers around named functype contracts)
		mine := ex.prog.Contracts[ex.key+"#"+prm.Name()]
		if mine == nil {
			ex.abort("parameter %s is passed for a parameter with a callee contract (%s) but has none itself", prm.Name(), kc0.Target)
		}
		have := map[string]bool{}
		for _, c := range ex.prog.expandContract(mine) {
			have[c.Target] = true
		}
		for _, c := range ex.prog.expandContract(kc0) {
			if c == kc0 {
				if len(c.Requires)+len(c.Ensures)+len(c.Assigns) > 0 {
					ex.abort("passing parameter %s on: callee contract %s has clauses of its own (only includes are supported)", prm.Name(), kc0.Target)
				}
				continue
			}
			if !have[c.Target] {
				ex.abort("passing parameter %s on: its callee contract does not include %s", prm.Name(), c.Target)
			}
		}
		if len(mine.Requires)+len(mine.Ensures)+len(mine.Assigns) > 0 {
			ex.abort("passing parameter %s on: its callee contract has clauses of its own (only includes are supported)", prm.Name())
		}
		return
	}
	fc, bindings := ex.closureContract(fval)
	if fc == nil {
		ex.abort("function value passed for parameter with a callee contract (%s) has no contract", kc0.Target)
	}
	kcs := ex.prog.expandContract(kc0)
	// footprint: a closure may assign nothing, or -- when the callee contract allows captures(self) -- its own captured variables
	allowsCaptures, allowsRegion := false, false
	for _, kc := range kcs {
		for _, cl := range kc.Assigns {
			for _, item := range splitList(cl.Text) {
				if strings.HasPrefix(strings.TrimSpace(item), "captures(") {
					allowsCaptures = true
				}
				if strings.HasPrefix(strings.TrimSpace(item), "fields[") {
					allowsRegion = true
				}
			}
		}
	}
	for _, cl := range fc.Assigns {
		for _, item := range splitList(cl.Text) {
			item = strings.TrimSpace(item)
			if item == "nothing" {
				continue
			}
			isCap := false
			for _, b := range fc.Captures {
				if b.Name == item {
					isCap = true
				}
			}
			if strings.HasPrefix(item, "fields[") && allowsRegion {
				continue // a type-level footprint the callee contract grants as well
			}
			if strings.HasPrefix(item, "mapcells(") && allowsCaptures {
				continue // a map the closure owns since it was made (see MakeClosure)
			}
			if isGhostName(item) || strings.Contains(item, ".Ghost") {
				continue // ghost state
			}
			if !(isCap && allowsCaptures) {
				ex.abort("refinement of %s by %s: the function assigns %s, which the callee contract does not allow", kc0.Target, fc.Name, item)
			}
		}
	}
	fe := ex.closureEnv(st, fc, bindings, outer)
	var kes []*Env
	for _, kc := range kcs {
		ke := &Env{st: st, pkgPath: kc.PkgPath, info: ex.prog.infoFor(kc.PkgPath), vars: map[string]BVal{}, cur: outer.cur, old: outer.cur, ghost: outer.ghost, ghost0: outer.ghost, allocLo: outer.allocLo}
		if kc == kc0 {
			for k, v := range outer.vars {
				ke.vars[k] = v
			}
		}
		kes = append(kes, ke)
	}
	bindParams := func(results bool) {
		list0 := kc0.Params
		flist := fc.Params
		if results {
			list0 = kc0.Results
			flist = fc.Results
		}
		if len(list0) != len(flist) {
			ex.abort("STALE-CONTRACT: %s and %s disagree on arity", kc0.Target, fc.Name)
		}
		for i, b := range list0 {
			t := ex.typeOfBinder(kc0, b)
			v := st.sc.fresh("rf_"+b.Name, st.u().sortOf(t))
			st.assumeWellFormed(v, t)
			fe.vars[flist[i].Name] = BVal{Val: v}
			for ki, kc := range kcs {
				bs := kc.Params
				if results {
					bs = kc.Results
				}
				off := 0
				if !results && len(bs) == len(list0)+1 {
					off = 1 // leading self binder
					kes[ki].vars[bs[0].Name] = BVal{Val: ex.val(st, fval), SSA: fval}
				}
				if i+off < len(bs) {
					kes[ki].vars[bs[i+off].Name] = BVal{Val: v}
				}
			}
		}
	}
	bindParams(false)
	var kpre, fpre []Term
	for ki, kc := range kcs {
		for _, cl := range kc.Requires {
			kpre = append(kpre, kes[ki].eval(cl.Expr))
		}
	}
	for _, cl := range fc.Requires {
		fpre = append(fpre, fe.eval(cl.Expr))
	}
	st.sc.comment("refinement of %s by %s", kc0.Target, fc.Name)
	// the checks below are implications over fresh constants: they must not be assumed afterwards as plain facts about them only
	st.check("refine@"+tag+"/pre", "refine", implies(and(kpre...), and(fpre...)), "the function passed accepts every argument the callee contract allows ("+fc.Name+")", nil, pos)
	bindParams(true)
	// post state of the function: the cells it may assign are unknown afterwards
	var kpost, fpost []Term
	if allowsCaptures && len(fc.Assigns) > 0 {
		post := copyMap(outer.cur)
		for _, cl := range fc.Assigns {
			for _, ls := range fe.evalAssignsClause(cl) {
				if ls.Ghost || ls.Region || ls.Owner != nil {
					continue
				}
				f := st.fams[ls.Fam]
				fresh := st.sc.freshFun("rfpost_"+ls.Fam, f.Args, f.Res)
				saved := st.heap
				st.heap = post
				obj := ls.Obj
				st.updateFamWhere(f, func(p []Term) Term { return eq(p[0], obj) }, func(p []Term) Term { return app(f.Res, fresh, p...) })
				post = st.heap
				st.heap = saved
			}
		}
		fe.old = outer.cur
		fe.cur = post
		// the ghost updates the closure's contract performs at its return
		if len(fc.GReturn) > 0 {
			saved := st.heap
			st.heap = post
			for _, g := range fc.GReturn {
				ex.ghostUpdate(st, fe, g)
			}
			post = st.heap
			st.heap = saved
			fe.cur = post
		}
		for _, ke := range kes {
			ke.old = outer.cur
			ke.cur = post
		}
	}
	for ki, kc := range kcs {
		for _, cl := range kc.Ensures {
			if strings.HasPrefix(cl.Label, "ghost") && len(fc.GReturn) == 0 {
				continue // clauses that define ghost state in terms of the call itself (traces): nothing for real code to establish
			}
			kpost = append(kpost, kes[ki].eval(cl.Expr))
		}
	}
	for _, cl := range fc.Ensures {
		fpost = append(fpost, fe.eval(cl.Expr))
	}
	st.check("refine@"+tag+"/post", "refine", implies(and(append(kpre, fpost...)...), and(kpost...)), "the function passed guarantees what the callee contract promises ("+fc.Name+")", nil, pos)
}

// applyPureClosure: value of call(f, args) for a closure whose contract has a
// defining postcondition `ensures [def] r == E`.
// pureDefOf: the defining expression `E` of a closure contract with `ensures [def] r == E`
func pureDefOf(fc *Contract) ast.Expr {
	for _, cl := range fc.Ensures {
		if cl.Label == "def" {
			if be, ok := cl.Expr.(*ast.BinaryExpr); ok && be.Op == token.EQL {
				return be.Y
			}
		}
	}
	return nil
}

// applySymbol: uninterpreted application of a function value to arguments, by signature
func (st *State) applySymbol(args []Term, rs Sort) string {
	name := "apply"
	sorts := []Sort{SInt}
	for _, a := range args {
		name += "." + string(a.Sort)
		sorts = append(sorts, a.Sort)
	}
	name += "/" + string(rs)
	st.sc.declFun(name, sorts, rs)
	return name
}

// applyPureClosure: value of call(f, args). For a statically known closure whose contract has a
// defining postcondition `ensures [def] r == E` the definition is expanded; otherwise the value is
// the uninterpreted application apply(f, args), which MakeClosure ties to the definition for every
// closure created with such a contract.
func (ex *Exec) applyPureClosure(e *Env, n ast.Node, bv BVal, args []Term, fterm Term, rs Sort) Term {
	if bv.SSA != nil {
		if fc, bindings := ex.closureContract(bv.SSA); fc != nil {
			if def := pureDefOf(fc); def != nil && (len(fc.Captures) == 0 || bindings != nil) {
				fe := ex.closureEnv(e.st, fc, bindings, e)
				for i, b := range fc.Params {
					fe.vars[b.Name] = BVal{Val: args[i]}
				}
				return fe.eval(def)
			}
		}
	}
	return app(rs, e.st.applySymbol(args, rs), append([]Term{fterm}, args...)...)
}

// closureDefAxiom: at the creation of a closure whose contract has a defining postcondition, tie the
// uninterpreted application of the new function value to that definition (captured variables as they
// are now; the library never reassigns construction-time captures)
func (ex *Exec) closureDefAxiom(st *State, mc *ssa.MakeClosure, id Term) {
	fn := mc.Fn.(*ssa.Function)
	fc := ex.prog.Contracts[keyOfFunction(fn)]
	if fc == nil {
		return
	}
	def := pureDefOf(fc)
	if def == nil || len(fc.Results) != 1 {
		return
	}
	base := &Env{st: st, cur: st.heap, old: st.heap, allocLo: st.alloc0}
	fe := ex.closureEnv(st, fc, mc.Bindings, base)
	var binders []string
	var args []Term
	for i, b := range fc.Params {
		s := st.u().sortOf(fn.Params[i].Type())
		st.sc.ensureSort(s)
		st.sc.nfresh++
		v := Term{fmt.Sprintf("%s!c%d", b.Name, st.sc.nfresh), s}
		fe.vars[b.Name] = BVal{Val: v}
		binders = append(binders, fmt.Sprintf("(%s %s)", v.S, s))
		args = append(args, v)
	}
	rs := st.u().sortOf(fn.Signature.Results().At(0).Type())
	body := fe.eval(def)
	lhs := app(rs, st.applySymbol(args, rs), append([]Term{id}, args...)...)
	if len(binders) == 0 {
		st.sc.assert(eq(lhs, body))
		return
	}
	st.sc.emit("(assert (forall (%s) (! (= %s %s) :pattern (%s))))", strings.Join(binders, " "), lhs.S, body.S, lhs.S)
}

// closureRequiresAtMake: what a closure contract requires of its captured variables alone is
// established where the closure is made (the variables are frozen from then on: closures whose
// contracts are used this way assign none of them). Requirements that mention a parameter can
// only be discharged by a caller: such a closure may flow into calls (as the callee or as an
// argument with a `callee` contract) but not escape through conversions, stores or returns.
func (ex *Exec) closureRequiresAtMake(st *State, mc *ssa.MakeClosure) {
	fn := mc.Fn.(*ssa.Function)
	fc := ex.prog.Contracts[keyOfFunction(fn)]
	if fc == nil {
		return
	}
	params := map[string]bool{}
	for _, b := range fc.Params {
		params[b.Name] = true
	}
	base := &Env{st: st, cur: st.heap, old: st.heap, ghost: st.ghost, ghost0: st.ghost, allocLo: st.alloc0}
	fe := ex.closureEnv(st, fc, mc.Bindings, base)
	ord := ex.ordinal[mc]
	var conj func(e ast.Expr, out *[]ast.Expr)
	conj = func(e ast.Expr, out *[]ast.Expr) {
		if pe, ok := e.(*ast.ParenExpr); ok {
			conj(pe.X, out)
			return
		}
		if be, ok := e.(*ast.BinaryExpr); ok && be.Op == token.LAND {
			conj(be.X, out)
			conj(be.Y, out)
			return
		}
		*out = append(*out, e)
	}
	needsCaller := false
	k := 0
	for _, cl := range fc.Requires {
		var cs []ast.Expr
		conj(cl.Expr, &cs)
		for _, c := range cs {
			mentions := false
			ast.Inspect(c, func(n ast.Node) bool {
				if id, ok := n.(*ast.Ident); ok && (params[id.Name] || isGhostName(id.Name)) {
					mentions = true // parameters and ghost state are known at the call, not when the closure is made
				}
				return true
			})
			if mentions {
				needsCaller = true
				continue
			}
			k++
			name := fmt.Sprintf("closure@make#%d:%s/#%d", ord, strings.TrimPrefix(fc.Name, ex.con.Name), k)
			st.check(name, "pre", fe.eval(c), "captured variables satisfy what "+fc.Name+" requires of them: "+cl.Text, cl.Props, mc.Pos())
		}
	}
	for _, cl := range fc.Ensures {
		if cl.Label == "inv" {
			st.check(fmt.Sprintf("closure@make#%d:%s/inv", ord, strings.TrimPrefix(fc.Name, ex.con.Name)), "pre", fe.eval(cl.Expr), "the closure's invariant on its captured variables holds when it is made: "+cl.Text, cl.Props, mc.Pos())
		}
	}
	if needsCaller {
		for _, r := range *mc.Referrers() {
			switch r.(type) {
			case *ssa.Call, *ssa.DebugRef:
			default:
				ex.abort("closure %s has requirements on its parameters but escapes through %T: only calls can discharge them", fc.Name, r)
			}
		}
	}
}

// rangeSliceOf: for a rangeindex loop, the slice value indexed by the loop's index
func (ex *Exec) rangeSliceOf(lp *Loop) ssa.Value {
	var idxPhi *ssa.Phi
	for _, in := range lp.Header.Instrs {
		if phi, ok := in.(*ssa.Phi); ok && phi.Comment == "rangeindex" {
			idxPhi = phi
		}
	}
	if idxPhi == nil {
		return nil
	}
	var inc ssa.Value
	for _, in := range lp.Header.Instrs {
		if bo, ok := in.(*ssa.BinOp); ok && bo.X == idxPhi {
			inc = bo
		}
	}
	for b := range lp.Blocks {
		for _, in := range b.Instrs {
			if ia, ok := in.(*ssa.IndexAddr); ok && (ia.Index == inc || ia.Index == idxPhi) {
				return ia.X
			}
		}
	}
	return nil
}
