package main

import (
	"fmt"
	"go/ast"
	"go/constant"
	"go/token"
	"go/types"
	"sort"
	"strings"

	"golang.org/x/tools/go/ssa"
)

type Obl struct {
	Name    string
	Kind    string
	Props   []string
	Desc    string
	Func    string
	Path    int
	Seq     int // index of the check-sat inside the path script
	Status  string
	Solver  string
	Secs    float64
	Pos     string
	Trivial bool // discharged without a solver (syntactic freshness)
	Confirm []string // thorough tier: other back ends that independently answered unsat on the whole-path run
	Term    string
	Part    string // frame obligations of calls: the heap family of the callee's footprint this instance is about
}

type PathScript struct {
	Slow   bool // contract flagged `slow`: the per-query time limit is multiplied
	ID     int
	Func   string
	Script string
	Obls   []*Obl
	Trail  string
	End    string
}

type Loop struct {
	N      int
	Header *ssa.BasicBlock
	Blocks map[*ssa.BasicBlock]bool
	Con    *LoopContract
	Range  *ssa.Range // map range iterator, if any
}

type Exec struct {
	prog     *Program
	fn       *ssa.Function
	key      string
	con      *Contract
	cons     []*Contract // con + included + refined contracts
	ownCons  int         // the first ownCons entries of cons are the contract and its includes
	loops    map[*ssa.BasicBlock]*Loop
	ordinal  map[ssa.Instruction]int
	paths    []*PathScript
	cur      *PathScript
	fatal    []string
	assign   []LocSet
	maxPaths int
	info     *types.Info
	opts     *Options
	allocs   map[string]*ssa.Alloc
	indexed   map[*ssa.Function]bool
	localName map[ssa.Instruction]string         // callee name of a call instruction
	localOrd  map[ssa.Instruction]int            // its flattened per-name ordinal inside its own function
	before    map[ssa.Instruction]map[string]int // flattened per-name call counts before a call instruction
	ninlined  int
	storeName map[ssa.Instruction]string // store:<field>#k anchors
}

// calleeShortName: the method or function name of a call (for anchors that survive unrelated edits)
func calleeShortName(c *ssa.Call) string {
	cc := c.Common()
	if cc.IsInvoke() {
		return cc.Method.Name()
	}
	switch f := cc.Value.(type) {
	case *ssa.Function:
		return f.Name()
	case *ssa.MakeClosure:
		return f.Fn.Name()
	case *ssa.Parameter:
		return f.Name()
	}
	if ld, ok := cc.Value.(*ssa.UnOp); ok {
		if fa, ok := ld.X.(*ssa.FieldAddr); ok {
			if pt, ok := fa.X.Type().Underlying().(*types.Pointer); ok {
				if st, ok := pt.Elem().Underlying().(*types.Struct); ok {
					return st.Field(fa.Field).Name()
				}
			}
		}
	}
	return ""
}

type Options struct {
	Overflow bool
	MaxPaths int
}

type execAbort struct{ msg string }

func (ex *Exec) abort(format string, args ...interface{}) {
	panic(execAbort{fmt.Sprintf(format, args...)})
}

func newExec(p *Program, fn *ssa.Function, con *Contract, opts *Options) *Exec {
	ex := &Exec{prog: p, fn: fn, key: keyOfFunction(fn), con: con, loops: map[*ssa.BasicBlock]*Loop{}, ordinal: map[ssa.Instruction]int{}, opts: opts, allocs: map[string]*ssa.Alloc{}}
	ex.maxPaths = opts.MaxPaths
	if ex.maxPaths == 0 {
		ex.maxPaths = 3000
	}
	ex.findLoops()
	ex.localName = map[ssa.Instruction]string{}
	ex.localOrd = map[ssa.Instruction]int{}
	ex.before = map[ssa.Instruction]map[string]int{}
	ex.indexFunction(fn, true, 0)
	return ex
}

func (ex *Exec) findLoops() {
	fn := ex.fn
	var headers []*ssa.BasicBlock
	back := map[*ssa.BasicBlock][]*ssa.BasicBlock{}
	for _, b := range fn.Blocks {
		for _, s := range b.Succs {
			if s.Dominates(b) {
				if _, ok := back[s]; !ok {
					headers = append(headers, s)
				}
				back[s] = append(back[s], b)
			}
		}
	}
	sort.Slice(headers, func(i, j int) bool { return headers[i].Index < headers[j].Index })
	for i, h := range headers {
		lp := &Loop{N: i + 1, Header: h, Blocks: map[*ssa.BasicBlock]bool{h: true}}
		var stack []*ssa.BasicBlock
		for _, s := range back[h] {
			if !lp.Blocks[s] {
				lp.Blocks[s] = true
				stack = append(stack, s)
			}
		}
		for len(stack) > 0 {
			b := stack[len(stack)-1]
			stack = stack[:len(stack)-1]
			for _, p := range b.Preds {
				if !lp.Blocks[p] {
					lp.Blocks[p] = true
					stack = append(stack, p)
				}
			}
		}
		for _, in := range h.Instrs {
			if nx, ok := in.(*ssa.Next); ok {
				if r, ok := nx.Iter.(*ssa.Range); ok {
					lp.Range = r
				}
			}
		}
		if ex.con != nil {
			lp.Con = ex.con.Loops[lp.N]
		}
		ex.loops[h] = lp
	}
}

// ---------------------------------------------------------------------------
// obligations

// checkPart: like check, every instance labelled with the part of the obligation it is about
func (st *State) checkPart(name, kind string, t Term, desc string, props []string, pos token.Pos, part string) {
	n0 := len(st.ex.cur.Obls)
	st.check(name, kind, t, desc, props, pos)
	for _, o := range st.ex.cur.Obls[n0:] {
		o.Part = part
	}
}

func (st *State) check(name, kind string, t Term, desc string, props []string, pos token.Pos) {
	ex := st.ex
	if st.inl != nil {
		name = st.inl.prefix + name
	}
	if ex.con != nil && strings.HasPrefix(name, "safe/") && ex.con.Flags["design_panic="+name] {
		// a panic the function documents as its reaction to an input no precondition can describe before the call
		// (the dynamic type of a value user code will compute): not an obligation, an assumption, and listed as one
		// in every evidence file ("flag design_panic=... on ...")
		st.sc.assert(t)
		return
	}
	o := &Obl{Name: ex.key + "/" + name, Kind: kind, Desc: desc, Func: ex.key, Path: ex.cur.ID, Props: props, Term: t.S}
	if !pos.IsValid() && ex.fn != nil {
		pos = ex.fn.Pos() // e.g. a compiler-generated return: point at the function
	}
	if pos.IsValid() {
		p := ex.prog.SSA.Fset.Position(pos)
		o.Pos = fmt.Sprintf("%s:%d", p.Filename, p.Line)
	}
	if len(o.Props) == 0 && ex.con != nil {
		o.Props = ex.con.Props
	}
	if ap := ex.prog.anchorProps(ex.key); len(ap) > 0 {
		for _, p := range ap {
			dup := false
			for _, q := range o.Props {
				if q == p {
					dup = true
				}
			}
			if !dup {
				o.Props = append(append([]string(nil), o.Props...), p)
			}
		}
	}
	if ex.con != nil {
		if pc := ex.prog.PC[ex.con.PkgPath]; pc != nil && pc.KindProps != nil {
			for _, p := range pc.KindProps[kind] {
				dup := false
				for _, q := range o.Props {
					if q == p {
						dup = true
					}
				}
				if !dup {
					o.Props = append(append([]string(nil), o.Props...), p)
				}
			}
		}
	}
	if t.S == "true" {
		o.Trivial = true
		o.Status = "unsat"
		o.Solver = "syntactic"
		ex.cur.Obls = append(ex.cur.Obls, o)
		return
	}
	// a conjunction is checked conjunct by conjunct (each one is an instance of the same named
	// obligation): E-matching handles small goals far more reliably than one big disjunction of negations
	parts := splitConjuncts(t.S, 0)
	for _, p := range parts {
		oi := *o
		oi.Term = p
		oi.Seq = st.nobl
		st.nobl++
		st.sc.emit("(push 1)\n(echo \"OBL %d %s\")\n(assert (not %s))\n(check-sat)\n(pop 1)", oi.Seq, oi.Name, p)
		ex.cur.Obls = append(ex.cur.Obls, &oi)
	}
	if knownObls[o.Name] {
		// an obligation recorded as a known finding is expected to fail: it is not assumed afterwards, so that the
		// rest of the path is still verified (assuming a false statement would discharge everything after it)
		return
	}
	st.sc.assert(t)
}

// splitConjuncts splits an SMT term into conjuncts, pushing through (=> A (and ..)) and
// (forall (..) body).
func splitConjuncts(t string, depth int) []string {
	t = strings.TrimSpace(t)
	if depth > 60 {
		return []string{t}
	}
	if strings.HasPrefix(t, "(and ") {
		var out []string
		for _, p := range sexprArgs(t[5 : len(t)-1]) {
			out = append(out, splitConjuncts(p, depth+1)...)
		}
		return out
	}
	if strings.HasPrefix(t, "(=> ") {
		args := sexprArgs(t[4 : len(t)-1])
		if len(args) == 2 {
			rhs := splitConjuncts(args[1], depth+1)
			if len(rhs) > 1 {
				var out []string
				for _, r := range rhs {
					out = append(out, "(=> "+args[0]+" "+r+")")
				}
				return out
			}
		}
		return []string{t}
	}
	if strings.HasPrefix(t, "(forall ") {
		args := sexprArgs(t[8 : len(t)-1])
		if len(args) == 2 && !strings.HasPrefix(args[1], "(!") {
			body := splitConjuncts(args[1], depth+1)
			if len(body) > 1 {
				var out []string
				for _, b := range body {
					out = append(out, "(forall "+args[0]+" "+b+")")
				}
				return out
			}
		}
		return []string{t}
	}
	return []string{t}
}

// sexprArgs splits a string of juxtaposed s-expressions / atoms at top level.
func sexprArgs(t string) []string {
	var out []string
	depth := 0
	start := -1
	for i := 0; i < len(t); i++ {
		c := t[i]
		switch {
		case c == '(':
			if depth == 0 && start < 0 {
				start = i
			}
			depth++
		case c == ')':
			depth--
			if depth == 0 {
				out = append(out, t[start:i+1])
				start = -1
			}
		case c == ' ' || c == '\n' || c == '\t':
			if depth == 0 && start >= 0 {
				out = append(out, t[start:i])
				start = -1
			}
		default:
			if depth == 0 && start < 0 {
				start = i
			}
		}
	}
	if start >= 0 {
		out = append(out, t[start:])
	}
	return out
}

func (st *State) trivially(name, kind, desc string) {
	st.check(name, kind, tTrue, desc, nil, token.NoPos)
}

// ---------------------------------------------------------------------------
// running a function

func (ex *Exec) newPath(st *State) {
	ps := &PathScript{ID: len(ex.paths) + 1, Func: ex.key}
	ex.paths = append(ex.paths, ps)
	ex.cur = ps
	if len(ex.paths) > ex.maxPaths {
		ex.abort("more than %d paths", ex.maxPaths)
	}
}

func (ex *Exec) finishPath(st *State, how string) {
	ex.cur.Script = st.sc.text()
	ex.cur.Trail = strings.Join(st.trail, " ")
	ex.cur.End = how
}

func (ex *Exec) envFor(st *State, c *Contract) *Env {
	e := &Env{st: st, pkgPath: c.PkgPath, info: ex.prog.infoFor(c.PkgPath), vars: map[string]BVal{}, cur: st.heap, old: st.entry, ghost: st.ghost, ghost0: st.ghost0, allocLo: st.alloc0}
	return e
}

// bindSelf binds the binders of contract c to this function's parameters.
func (ex *Exec) bindSelf(st *State, c *Contract, e *Env) {
	fn := ex.fn
	params := fn.Params
	i := 0
	if c.Recv != nil {
		if len(params) == 0 {
			ex.abort("contract %s declares a receiver but function has no parameters", c.Name)
		}
		e.vars[c.Recv.Name] = BVal{Val: st.vals[params[0]], Type: params[0].Type()}
		i = 1
	}
	cparams := c.Params
	if c.Kind == "interface" && len(c.Params) == len(params)-i+1 {
		// interface-method contract checked against a plain function/closure: the receiver binder is this function value
		key := "self:" + c.Target
		sv, ok := st.ghost[key]
		if !ok {
			t := ex.typeOfBinder(c, c.Params[0])
			sv = st.sc.fresh("self", st.u().sortOf(t))
			st.sc.assert(neq(sv, st.u().zero(sv.Sort)))
			st.ghost[key] = sv
		}
		e.vars[c.Params[0].Name] = BVal{Val: sv}
		cparams = c.Params[1:]
	}
	if len(cparams) != len(params)-i {
		ex.abort("STALE-CONTRACT: %s declares %d parameters, function has %d", c.Name, len(cparams), len(params)-i)
	}
	for k, b := range cparams {
		v := st.vals[params[i+k]]
		if c.Kind == "interface" && v.Sort != SIface {
			// a method checked against the contract of the interface method it implements: the receiver, as an interface value
			if bt := ex.typeOfBinder(c, b); bt != nil {
				if _, isI := bt.Underlying().(*types.Interface); isI {
					v = st.makeIface(v, params[i+k].Type())
				}
			}
		}
		e.vars[b.Name] = BVal{Val: v, Type: params[i+k].Type()}
	}
	if len(c.Captures) > 0 {
		// a closure may capture more than its contract declares: such a variable is an ordinary cell the contract
		// says nothing about (its content is unconstrained at entry, and a write to it is outside the footprint)
		if len(c.Captures) > len(fn.FreeVars) {
			ex.abort("STALE-CONTRACT: %s declares %d captures, closure has %d", c.Name, len(c.Captures), len(fn.FreeVars))
		}
		for _, b := range c.Captures {
			fv := fn.FreeVars[ex.captureIndex(c, fn, b.Name)]
			l := st.locOfPointer(st.vals[fv], fv.Type())
			e.vars[b.Name] = BVal{Cell: &l, Type: fv.Type()}
		}
	}
}

// captureIndex: captured variables are matched by name with the closure's free variables
func (ex *Exec) captureIndex(c *Contract, fn *ssa.Function, name string) int {
	if fn == nil {
		fn = ex.prog.Funcs[c.Target]
	}
	if fn == nil {
		ex.abort("STALE-CONTRACT: closure %s not found", c.Target)
	}
	for i, fv := range fn.FreeVars {
		if fv.Name() == name {
			return i
		}
	}
	ex.abort("STALE-CONTRACT: closure %s captures no variable named %s", c.Name, name)
	return -1
}

func (ex *Exec) run() (err error) {
	defer func() {
		if r := recover(); r != nil {
			switch v := r.(type) {
			case execAbort:
				err = fmt.Errorf("%s: %s", ex.key, v.msg)
			case specError:
				err = fmt.Errorf("%s: contract error: %s", ex.key, v.msg)
			default:
				panic(r)
			}
		}
	}()
	fn := ex.fn
	st := &State{ex: ex, sc: newScript(ex.prog.Universe), vals: map[ssa.Value]Term{}, locs: map[ssa.Value]Loc{}, tuples: map[ssa.Value][]Term{}, iters: map[ssa.Value]*MapIter{}, heap: map[string]string{}, fams: map[string]*Family{}, ghost: map[string]Term{}, visited: map[*ssa.BasicBlock]int{}, loopSeen: map[*ssa.BasicBlock]bool{}, sliceBase: map[string]sliceBaseInfo{}}
	st.entry = map[string]string{}
	ex.newPath(st)
	st.sc.comment("function %s", ex.key)
	st.alloc0 = st.sc.fresh("alloc0", SInt)
	st.sc.assert(gt(st.alloc0, intLit(100000)))
	st.alloc = st.alloc0
	for _, p := range fn.Params {
		s := st.u().sortOf(p.Type())
		v := st.sc.fresh("p_"+p.Name(), s)
		st.vals[p] = v
		st.assumeWellFormed(v, p.Type())
	}
	for _, fv := range fn.FreeVars {
		v := st.sc.fresh("fv_"+fv.Name(), SInt)
		st.vals[fv] = v
		st.sc.assert(and(gt(v, intLit(100000)), lt(v, st.alloc0)))
	}
	// distinct captured cells
	for i := range fn.FreeVars {
		for j := i + 1; j < len(fn.FreeVars); j++ {
			if types.Identical(fn.FreeVars[i].Type(), fn.FreeVars[j].Type()) {
				st.sc.assert(neq(st.vals[fn.FreeVars[i]], st.vals[fn.FreeVars[j]]))
			}
		}
	}
	st.ghost0 = map[string]Term{}
	// axioms (trusted, listed in the evidence)
	for _, pk := range sortedKeys(ex.prog.PC) {
		for _, ax := range ex.prog.PC[pk].Axioms {
			e := &Env{st: st, pkgPath: ax.PkgPath, info: ex.prog.infoFor(ax.PkgPath), vars: map[string]BVal{}, cur: st.heap, old: st.heap, allocLo: st.alloc0}
			st.sc.comment("axiom %s: %s", ax.Name, ax.Clause.Text)
			st.sc.assert(e.eval(ax.Clause.Expr))
		}
	}
	for _, pk := range sortedKeys(ex.prog.PC) {
		pc := ex.prog.PC[pk]
		if fn.Synthetic != "" && pk == ex.pkgPath() {
			continue // the package initialiser establishes its own invariants
		}
		for _, gi := range pc.GlobalInvs {
			e := &Env{st: st, pkgPath: gi.PkgPath, info: ex.prog.infoFor(gi.PkgPath), vars: map[string]BVal{}, cur: st.heap, old: st.heap, allocLo: st.alloc0}
			st.sc.comment("global invariant %s", gi.Requires[0].Text)
			st.sc.assert(e.eval(gi.Requires[0].Expr))
		}
	}
	// type invariants of the receiver (encapsulated object state)
	if recv := fn.Signature.Recv(); recv != nil && len(fn.Params) > 0 {
		for _, ti := range ex.typeInvsFor(recv.Type()) {
			e := &Env{st: st, pkgPath: ti.PkgPath, info: ex.prog.infoFor(ti.PkgPath), vars: map[string]BVal{}, cur: st.heap, old: st.heap, allocLo: st.alloc0}
			e.vars[ti.Recv.Name] = BVal{Val: st.vals[fn.Params[0]]}
			st.sc.comment("type invariant %s", ti.Requires[0].Text)
			st.sc.assert(implies(neq(st.vals[fn.Params[0]], st.u().zero(st.vals[fn.Params[0]].Sort)), e.eval(ti.Requires[0].Expr)))
		}
	}
	ex.cons = nil
	if ex.con != nil {
		ex.cons = append(ex.cons, ex.prog.expandContract(ex.con)...)
		ex.ownCons = len(ex.cons)
		for _, r := range ex.con.Refines {
			rc := ex.prog.Contracts[r]
			if rc == nil {
				ex.abort("refines unknown contract %s", r)
			}
			for _, x := range ex.prog.expandContract(rc) {
				dup := false
				for _, y := range ex.cons {
					if y == x {
						dup = true
					}
				}
				if !dup {
					ex.cons = append(ex.cons, x)
				}
			}
		}
	}
	// every anchored clause must name an instruction of the function as it is now
	{
		have := map[string]bool{"entry": true}
		for _, b := range fn.Blocks {
			for _, in := range b.Instrs {
				switch t := in.(type) {
				case *ssa.Call:
					if bi, ok := t.Call.Value.(*ssa.Builtin); ok {
						have[fmt.Sprintf("%s#%d", bi.Name(), ex.ordinal[in])] = true
					} else {
						have[fmt.Sprintf("call#%d", ex.ordinal[in])] = true
					}
				case *ssa.Store:
					have[fmt.Sprintf("store#%d", ex.ordinal[in])] = true
					if a := ex.storeName[in]; a != "" {
						have[a] = true
					}
				case *ssa.MapUpdate:
					have[fmt.Sprintf("mapupdate#%d", ex.ordinal[in])] = true
				}
			}
		}
		ex.anchorsOf(fn, map[string]int{}, 0, have)
		for _, c := range ex.cons[:ex.ownCons] {
			if c.Kind == "interface" || c.Kind == "functype" {
				continue
			}
			for _, a := range c.Asserts {
				if !have[a.Anchor] {
					ex.abort("STALE-CONTRACT: assert_at %s [%s]: the function has no such instruction", a.Anchor, a.Label)
				}
			}
			for _, g := range c.GAt {
				if !have[g.Anchor] {
					ex.abort("STALE-CONTRACT: ghost_at %s: the function has no such instruction", g.Anchor)
				}
			}
		}
	}
	// preconditions. When the function also refines other contracts (e.g. the contract of the
	// interface method it implements), those preconditions are assumed first and the function's own
	// preconditions must follow from them.
	hasRefined := len(ex.cons) > ex.ownCons
	ifaceFramed := false
	for ci := 0; ci < ex.ownCons; ci++ {
		if ex.cons[ci].Kind == "interface" {
			ifaceFramed = true
		}
	}
	for ci := ex.ownCons; ci < len(ex.cons); ci++ {
		c := ex.cons[ci]
		e := ex.envFor(st, c)
		ex.bindSelf(st, c, e)
		ex.bindLets(c, e)
		for _, cl := range c.Requires {
			st.sc.comment("requires (refined contract %s) %s", c.Name, cl.Text)
			st.sc.assert(e.eval(cl.Expr))
		}
	}
	for ci := 0; ci < ex.ownCons; ci++ {
		c := ex.cons[ci]
		e := ex.envFor(st, c)
		ex.bindSelf(st, c, e)
		ex.bindLets(c, e)
		if c == ex.con && ex.fn != nil && ex.fn.Parent() != nil {
			// a closure's own invariant on its captured variables holds whenever it is called
			for _, cl := range c.Ensures {
				if cl.Label == "inv" {
					st.sc.comment("closure invariant at entry %s", cl.Text)
					st.sc.assert(e.eval(cl.Expr))
				}
			}
			// distinct captured variables live in distinct cells
			if len(ex.fn.FreeVars) > 1 {
				var ids []string
				for _, fv := range ex.fn.FreeVars {
					ids = append(ids, st.vals[fv].S)
				}
				st.sc.emit("(assert (distinct %s))", strings.Join(ids, " "))
			}
		}
		for k, cl := range c.Requires {
			st.sc.comment("requires %s", cl.Text)
			if hasRefined {
				st.check(fmt.Sprintf("refines/pre:%s#%d", c.Name, k+1), "refine", e.eval(cl.Expr), "own precondition follows from the refined contract's precondition: "+cl.Text, cl.Props, token.NoPos)
			} else {
				st.sc.assert(e.eval(cl.Expr))
			}
		}
		// a function that implements an interface method (its contract includes the interface contract)
		// may write only what the interface contract allows, whatever its own assigns clause says
		if ifaceFramed && c.Kind != "interface" {
			continue
		}
		for _, cl := range c.Assigns {
			ex.assign = append(ex.assign, e.evalAssignsClause(cl)...)
		}
	}
	// entry snapshot
	st.entry = copyMap(st.heap)
	ex.assertsAt(st, "entry", token.NoPos)
	// ghost updates at entry
	for _, c := range ex.cons {
		if len(c.GEntry) == 0 {
			continue
		}
		e := ex.envFor(st, c)
		ex.bindSelf(st, c, e)
		ex.bindLets(c, e)
		for _, g := range c.GEntry {
			ex.ghostUpdate(st, e, g)
		}
	}
	ex.walk(st, fn.Blocks[0], nil)
	return nil
}

func (ex *Exec) pkgPath() string {
	if ex.fn.Pkg != nil {
		return ex.fn.Pkg.Pkg.Path()
	}
	return ""
}

func (ex *Exec) bindLets(c *Contract, e *Env) {
	for _, l := range c.Lets {
		e.vars[l.Label] = BVal{Val: e.eval(l.Expr)}
	}
}

func (ex *Exec) walk(st *State, b *ssa.BasicBlock, pred *ssa.BasicBlock) {
	ex.walkFrom(st, b, pred, 0)
}

// walkFrom: start > 0 resumes block b after an inlined call (the instruction at start-1)
func (ex *Exec) walkFrom(st *State, b *ssa.BasicBlock, pred *ssa.BasicBlock, start int) {
	for {
		st.trail = append(st.trail, fmt.Sprintf("%d", b.Index))
		st.sc.comment("block %d (%s)", b.Index, b.Comment)
		predIdx := -1
		if pred != nil {
			for i, p := range b.Preds {
				if p == pred {
					predIdx = i
				}
			}
		}
		startInstr := start
		start = 0
		if lp, ok := ex.loops[b]; ok && startInstr == 0 {
			if !ex.atLoopHead(st, lp, predIdx) {
				return
			}
			for startInstr < len(b.Instrs) {
				if _, ok := b.Instrs[startInstr].(*ssa.Phi); !ok {
					break
				}
				startInstr++
			}
		}
		var next *ssa.BasicBlock
		for off, in := range b.Instrs[startInstr:] {
			switch t := in.(type) {
			case *ssa.Call:
				if g := ex.inlinable(t); g != nil && g != ex.fn && !st.inlining(g) && (st.inl == nil || st.inl.depth < maxInlineDepth) {
					ex.enterInline(st, t, g, b, pred, startInstr+off)
					return
				}
				ex.step(st, in)
				ex.ghostAt(st, in)
			case *ssa.Phi:
				ex.copyValue(st, t, t.Edges[predIdx])
			case *ssa.If:
				c := ex.val(st, t.Cond)
				other := st.cloneForBranch()
				st.sc.comment("branch true")
				st.sc.assert(c)
				ex.walk(st, b.Succs[0], b)
				ex.newPath(other)
				other.sc.comment("branch false")
				other.sc.assert(not(c))
				ex.walk(other, b.Succs[1], b)
				return
			case *ssa.Jump:
				next = b.Succs[0]
			case *ssa.Return:
				if st.inl != nil {
					ex.leaveInline(st, t)
					return
				}
				ex.atReturn(st, t)
				ex.finishPath(st, "return")
				return
			case *ssa.Panic:
				st.check(fmt.Sprintf("safe/panic#%d", ex.ordinal[t]), "panic", tFalse, "explicit panic must be unreachable under the precondition", nil, t.Pos())
				ex.finishPath(st, "panic")
				return
			default:
				ex.step(st, in)
				ex.ghostAt(st, in)
			}
		}
		if next == nil {
			ex.abort("block %d has no terminator handled", b.Index)
		}
		pred, b = b, next
	}
}

// Because obligations checked before a branch belong to the path that ran
// them, the else-branch path re-runs nothing: its script is the cloned prefix
// (which already contains the earlier push/pop blocks). To avoid counting
// those twice, earlier checks are stripped from cloned prefixes.

func (ex *Exec) copyValue(st *State, dst ssa.Value, src ssa.Value) {
	if l, ok := st.locs[src]; ok {
		st.locs[dst] = l
		return
	}
	if tp, ok := st.tuples[src]; ok {
		st.tuples[dst] = tp
		return
	}
	st.vals[dst] = ex.val(st, src)
}

// val returns the term of an SSA value.
func (ex *Exec) val(st *State, v ssa.Value) Term {
	if t, ok := st.vals[v]; ok {
		return t
	}
	switch c := v.(type) {
	case *ssa.Const:
		return ex.constVal(st, c)
	case *ssa.Global:
		return st.globalIDByName(c.Pkg.Pkg.Path() + "." + c.Name())
	case *ssa.Function:
		return st.funcValue(c)
	case *ssa.Builtin:
		ex.abort("builtin %s used as value", c.Name())
	}
	if l, ok := st.locs[v]; ok {
		if l.Kind == LObj || l.Kind == LCell || l.Kind == LArr {
			return l.Obj
		}
		ex.abort("address of a field/element escapes as a value (%s = %s): outside the verified subset", v.Name(), l)
	}
	ex.abort("no term for SSA value %s (%T) in %s", v.Name(), v, ex.key)
	return Term{}
}

func (ex *Exec) constVal(st *State, c *ssa.Const) Term {
	t := c.Type()
	s := st.u().sortOf(t)
	if c.Value == nil {
		st.sc.ensureSort(s)
		return st.u().zero(s)
	}
	switch c.Value.Kind() {
	case constant.Bool:
		return boolLit(constant.BoolVal(c.Value))
	case constant.Int:
		str := c.Value.ExactString()
		if strings.HasPrefix(str, "-") {
			return Term{"(- " + str[1:] + ")", SInt}
		}
		return Term{str, SInt}
	case constant.String:
		return st.sc.strLit(constant.StringVal(c.Value))
	case constant.Float:
		return st.sc.fresh("fconst", SF64)
	}
	ex.abort("unsupported constant %s", c)
	return Term{}
}

func (ex *Exec) locOf(st *State, v ssa.Value) Loc {
	if l, ok := st.locs[v]; ok {
		return l
	}
	return st.locOfPointer(ex.val(st, v), v.Type())
}

// ---------------------------------------------------------------------------
// globals, function values

func (st *State) globalID(v *types.Var) Term {
	return st.globalIDByName(v.Pkg().Path() + "." + v.Name())
}

func (st *State) globalIDByName(key string) Term {
	id := st.u().funcID("global:" + key) // shares the small-id space
	return intLit(int64(id))
}

func (st *State) globalLoc(v *types.Var) Loc {
	id := st.globalID(v)
	return st.locOfPointer(id, types.NewPointer(v.Type()))
}

func (st *State) funcValue(f *ssa.Function) Term {
	id := st.u().funcID("func:" + keyOfFunction(f))
	t := intLit(int64(1000 + id))
	st.sc.declFun("clo.fn", []Sort{SInt}, SInt)
	k := "fnval:" + t.S
	if !st.sc.declared[k] {
		st.sc.declared[k] = true
		st.sc.assert(eq(app(SInt, "clo.fn", t), intLit(int64(id))))
	}
	return t
}

// ---------------------------------------------------------------------------
// interfaces

func (st *State) boxFns(s Sort) (box, unbox string) {
	box, unbox = "box."+string(s), "unbox."+string(s)
	if !st.sc.declared["fun:"+box] {
		st.sc.declFun(box, []Sort{s}, SInt)
		st.sc.declFun(unbox, []Sort{SInt}, s)
		st.sc.emit("(assert (forall ((x %s)) (! (= (%s (%s x)) x) :pattern ((%s x)))))", s, unbox, box, box)
	}
	return
}

func (st *State) makeIface(v Term, t types.Type) Term {
	if v.Sort == SIface {
		return v
	}
	tid := st.u().typeID(t)
	st.noteTypeID(tid)
	if v.Sort == SInt {
		if _, isPtr := t.Underlying().(*types.Pointer); isPtr {
			// nil pointer in interface is still a non-nil interface
		}
		return mkIface(intLit(int64(tid)), v)
	}
	b, _ := st.boxFns(v.Sort)
	return mkIface(intLit(int64(tid)), app(SInt, b, v))
}

func (st *State) unbox(payload Term, t types.Type) Term {
	s := st.u().sortOf(t)
	if s == SInt {
		return payload
	}
	_, ub := st.boxFns(s)
	return app(s, ub, payload)
}

// implementsPred: dynamic type dt implements interface type it
func (st *State) implementsPred(dt Term, it types.Type) Term {
	name := "impl." + shortTypeName(it)
	iface := it.Underlying().(*types.Interface)
	if !st.sc.declared["fun:"+name] {
		st.sc.declFun(name, []Sort{SInt}, SBool)
		st.sc.assert(not(app(SBool, name, intLit(0))))
		ids := make([]int, 0, len(st.u().typeByID))
		for id := range st.u().typeByID {
			ids = append(ids, id)
		}
		sort.Ints(ids)
		for _, id := range ids {
			ct := st.u().typeByID[id]
			if _, isI := ct.Underlying().(*types.Interface); isI {
				continue
			}
			st.sc.assert(eq(app(SBool, name, intLit(int64(id))), boolLit(types.Implements(ct, iface))))
		}
	}
	return app(SBool, name, dt)
}

func (st *State) noteTypeID(id int) {}

// stringOfBytes: the string with the contents of byte slice b in snapshot snap.
// It is a function of (array, offset, length) per version of the byte family,
// so the same bytes in the same heap give the same string term.
func (st *State) stringOfBytes(snap map[string]string, b Term) Term {
	f := st.elemFam(SInt)
	esym := st.symIn(snap, f.Name)
	fn := "gstr.of." + esym
	if !st.sc.declared["fun:"+fn] {
		st.sc.declFun(fn, []Sort{SInt, SInt, SInt}, SStr)
		st.sc.emit("(assert (forall ((a Int) (o Int) (l Int)) (! (=> (>= l 0) (= (gstr.len (%[1]s a o l)) l)) :pattern ((%[1]s a o l)))))", fn)
		st.sc.emit("(assert (forall ((a Int) (o Int) (l Int) (k Int)) (! (=> (and (<= 0 k) (< k l)) (= (gstr.at (%[1]s a o l) k) (%[2]s a o k))) :pattern ((gstr.at (%[1]s a o l) k)))))", fn, esym)
		st.sc.emit("(assert (forall ((a Int) (o Int)) (! (= (%[1]s a o 0) str_empty) :pattern ((%[1]s a o 0)))))", fn)
	}
	if bi, ok := st.sliceBase[b.S]; ok {
		return app(SStr, fn, slArr(bi.Base), add(slOff(bi.Base), bi.Delta), slLen(b))
	}
	res := app(SStr, fn, slArr(b), slOff(b), slLen(b))
	ak := slArr(b).S
	if strings.HasPrefix(b.S, "(mk-slice ") {
		ak = strings.Fields(b.S[len("(mk-slice "):])[0]
	}
	if s, ok := st.strConv[ak]; ok {
		// extensionality instance: the bytes of an array made by []byte(s), if still those of s, spell s
		key := "strext:" + res.S
		if !st.sc.declared[key] {
			st.sc.declared[key] = true
			st.sc.emit("(assert (=> (and (= %[1]s 0) (= %[2]s (gstr.len %[3]s)) (forall ((k!x Int)) (=> (and (<= 0 k!x) (< k!x %[2]s)) (= (%[4]s %[5]s %[1]s k!x) (gstr.at %[3]s k!x))))) (= %[6]s %[3]s)))", slOff(b).S, slLen(b).S, s.S, esym, slArr(b).S, res.S)
		}
	}
	return res
}

// ---------------------------------------------------------------------------
// lemmas: `//@ lemma name(params)` with requires/ensures and no code. The
// obligation is requires ==> ensures for arbitrary parameters and an arbitrary
// heap.

func newLemmaExec(p *Program, con *Contract, opts *Options) *Exec {
	return &Exec{prog: p, key: con.Target, con: con, loops: map[*ssa.BasicBlock]*Loop{}, ordinal: map[ssa.Instruction]int{}, opts: opts, allocs: map[string]*ssa.Alloc{}, maxPaths: 10}
}

func (ex *Exec) runLemma() (err error) {
	defer func() {
		if r := recover(); r != nil {
			switch v := r.(type) {
			case execAbort:
				err = fmt.Errorf("%s: %s", ex.key, v.msg)
			case specError:
				err = fmt.Errorf("%s: contract error: %s", ex.key, v.msg)
			default:
				panic(r)
			}
		}
	}()
	c := ex.con
	st := &State{ex: ex, sc: newScript(ex.prog.Universe), vals: map[ssa.Value]Term{}, locs: map[ssa.Value]Loc{}, tuples: map[ssa.Value][]Term{}, iters: map[ssa.Value]*MapIter{}, heap: map[string]string{}, fams: map[string]*Family{}, ghost: map[string]Term{}, visited: map[*ssa.BasicBlock]int{}, loopSeen: map[*ssa.BasicBlock]bool{}, sliceBase: map[string]sliceBaseInfo{}}
	st.entry = map[string]string{}
	ex.newPath(st)
	st.sc.comment("lemma %s", ex.key)
	st.alloc0 = st.sc.fresh("alloc0", SInt)
	st.sc.assert(gt(st.alloc0, intLit(100000)))
	st.alloc = st.alloc0
	e := ex.envFor(st, c)
	for _, b := range c.Params {
		t := ex.typeOfBinder(c, b)
		v := st.sc.fresh("p_"+b.Name, st.u().sortOf(t))
		st.assumeWellFormed(v, t)
		e.vars[b.Name] = BVal{Val: v}
	}
	for _, pk := range sortedKeys(ex.prog.PC) {
		for _, ax := range ex.prog.PC[pk].Axioms {
			ae := &Env{st: st, pkgPath: ax.PkgPath, info: ex.prog.infoFor(ax.PkgPath), vars: map[string]BVal{}, cur: st.heap, old: st.heap, allocLo: st.alloc0}
			st.sc.assert(ae.eval(ax.Clause.Expr))
		}
	}
	for _, l := range c.Lets {
		e.vars[l.Label] = e.evalLetSafe(l)
	}
	for _, cl := range c.Requires {
		st.sc.comment("requires %s", cl.Text)
		st.sc.assert(e.eval(cl.Expr))
	}
	for i, cl := range c.Ensures {
		name := fmt.Sprintf("ensures#%d", i+1)
		if cl.Label != "" {
			name = "ensures:" + cl.Label
		}
		st.check(name, "lemma", e.eval(cl.Expr), cl.Text, cl.Props, token.NoPos)
	}
	st.check("cover/return", "cover", tFalse, "vacuity probe: the lemma's hypotheses are satisfiable (expected sat)", nil, token.NoPos)
	ex.finishPath(st, "lemma")
	return nil
}

// ghostUpdate executes `NAME = EXPR` (optionally guarded) on a ghost variable.
func (ex *Exec) ghostUpdate(st *State, e *Env, g *Clause) {
	if call, ok := g.Target.Expr.(*ast.CallExpr); ok {
		// update of a ghost function at one argument tuple
		pf := ex.prog.ghostFunOf(e.info, call.Fun)
		if pf == nil {
			ex.abort("ghost update target %s is not a ghostfun application", g.Label)
		}
		ne := &Env{st: st, pkgPath: pf.PkgPath, info: ex.prog.infoFor(pf.PkgPath), vars: map[string]BVal{}, cur: e.cur, old: e.old, allocLo: e.allocLo}
		i := 0
		for _, fld := range pf.Decl.Type.Params.List {
			for _, nm := range fld.Names {
				ne.vars[nm.Name] = BVal{Val: e.eval(call.Args[i])}
				i++
			}
		}
		f, args := ne.ghostFunFamily(pf, pf.Decl)
		nv := e.eval(g.Expr)
		if g.Cond != nil {
			c := e.eval(g.Cond.Expr)
			nv = ite(c, nv, st.readFam(st.heap, f, args...))
		}
		st.sc.comment("ghost %s = %s", g.Label, g.Text)
		st.writeFam(f, args, nv)
		return
	}
	var v *types.Var
	switch t := g.Target.Expr.(type) {
	case *ast.Ident:
		v, _ = e.info.Uses[t].(*types.Var)
	case *ast.SelectorExpr:
		v, _ = e.info.Uses[t.Sel].(*types.Var)
	}
	if v == nil || v.Pkg() == nil || v.Parent() != v.Pkg().Scope() {
		ex.abort("ghost update target %s is not a package-level ghost variable", g.Label)
	}
	if !isGhostName(v.Name()) {
		ex.abort("ghost update of %s: only variables named Ghost*/ghost* may be assigned by contracts", v.Name())
	}
	l := st.globalLoc(v)
	nv := e.eval(g.Expr)
	if nv.Sort != st.u().sortOf(v.Type()) && st.u().sortOf(v.Type()) == SIface {
		nv = st.makeIface(nv, e.typeOf(g.Expr))
	}
	if g.Cond != nil {
		c := e.eval(g.Cond.Expr)
		nv = ite(c, nv, st.loadLoc(st.heap, l))
	}
	st.sc.comment("ghost %s = %s", g.Label, g.Text)
	st.storeLoc(l, nv)
}

// ghostAt runs the ghost updates anchored right after instruction in (anchor = kind#ordinal, with the
// same kinds and ordinals as in obligation names: append#1, copy#2, call#3, store#1, mapupdate#1).
func (ex *Exec) ghostAt(st *State, in ssa.Instruction) {
	if ex.con == nil {
		return
	}
	var anchor string
	switch t := in.(type) {
	case *ssa.Call:
		if bi, ok := t.Call.Value.(*ssa.Builtin); ok {
			anchor = fmt.Sprintf("%s#%d", bi.Name(), ex.ordinal[in])
		} else {
			anchor = fmt.Sprintf("call#%d", ex.ordinal[in])
		}
	case *ssa.Store:
		anchor = fmt.Sprintf("store#%d", ex.ordinal[in])
	case *ssa.MapUpdate:
		anchor = fmt.Sprintf("mapupdate#%d", ex.ordinal[in])
	default:
		return
	}
	alt := ex.anchorOf(st, in)
	if a := ex.storeName[in]; a != "" && st.inl == nil {
		alt = a
	}
	if st.inl != nil {
		anchor = "" // ordinal anchors name instructions of the function itself, not of an inlined helper
	} else {
		ex.assertsAt(st, anchor, in.Pos())
	}
	if alt != "" {
		ex.assertsAt(st, alt, in.Pos())
	}
	for _, c := range ex.cons[:ex.ownCons] {
		for _, g := range c.GAt {
			if (anchor == "" || g.Anchor != anchor) && (alt == "" || g.Anchor != alt) {
				continue
			}
			e := ex.envFor(st, c)
			ex.bindSelf(st, c, e)
			eo := *e
			eo.cur = st.entry
			for _, l := range c.Lets {
				e.vars[l.Label] = (&eo).evalLetSafe(l)
			}
			ex.ghostUpdate(st, e, g)
		}
	}
}

func (ex *Exec) assertsAt(st *State, anchor string, pos token.Pos) {
	if ex.con == nil {
		return
	}
	for _, c := range ex.cons[:ex.ownCons] {
		for k, a := range c.Asserts {
			if a.Anchor != anchor {
				continue
			}
			e := ex.envFor(st, c)
			ex.bindSelf(st, c, e)
			eo := *e
			eo.cur = st.entry
			for _, l := range c.Lets {
				e.vars[l.Label] = (&eo).evalLetSafe(l)
			}
			name := fmt.Sprintf("assert@%s#%d", anchor, k+1)
			if a.Label != "" {
				name = "assert@" + anchor + ":" + a.Label
			}
			st.check(name, "hint", e.eval(a.Expr), "intermediate assertion: "+a.Text, a.Props, pos)
		}
	}
}

// typeInvsFor: type invariants declared (in the function's package) for type t
func (ex *Exec) typeInvsFor(t types.Type) []*Contract {
	return ex.typeInvsIn(ex.pkgPath(), t)
}

func (ex *Exec) typeInvsIn(pkg string, t types.Type) []*Contract {
	pc := ex.prog.PC[pkg]
	if pc == nil {
		return nil
	}
	var out []*Contract
	for _, ti := range pc.TypeInvs {
		bt := ex.typeOfBinder(ti, *ti.Recv)
		if bt != nil && types.Identical(bt, t) {
			out = append(out, ti)
		}
	}
	return out
}
