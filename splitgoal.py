#!/usr/bin/env python3
# dev helper: after probe.py, test each top-level conjunct of the goal in /tmp/probe.smt2 separately
import re,subprocess,sys
s=open('/tmp/probe.smt2').read()
i=s.rindex('(push 1)')
head=s[:i]
m=re.search(r'\(assert \(not (.*)\)\)\n\(check-sat\)',s[i:],re.S)
g=m.group(1)
def parse(t,pos=0):
    # returns list of top-level sexprs in t
    out=[];depth=0;start=None
    k=0
    while k<len(t):
        c=t[k]
        if c=='(':
            if depth==0:start=k
            depth+=1
        elif c==')':
            depth-=1
            if depth==0: out.append(t[start:k+1])
        elif depth==0 and not c.isspace():
            j=k
            while j<len(t) and not t[j].isspace() and t[j] not in '()': j+=1
            out.append(t[k:j]); k=j; continue
        k+=1
    return out
def conj(g):
    g=g.strip()
    if g.startswith('(and '):
        parts=parse(g[5:-1])
        r=[]
        for p in parts: r+=conj(p)
        return r
    return [g]
cs=conj(g)
print(len(cs),'conjuncts')
for c in cs:
    open('/tmp/sg.smt2','w').write(head+'(assert (not '+c+'))\n(check-sat)\n')
    r=subprocess.run(['z3-new','-smt2','-t:5000','smt.mbqi=false','/tmp/sg.smt2'],capture_output=True,text=True).stdout.strip().split('\n')[-1]
    print(r, c[:int(sys.argv[1]) if len(sys.argv)>1 else 200])
