#!/bin/bash
# usage: mutate.sh <file> <python-replace-expr-old> <new> -- dev helper: run govc on a scratch copy with one textual mutation
set -e
rm -rf /tmp/mut /tmp/mutwork; mkdir -p /tmp/mut; rsync -a --exclude .git /repo/ /tmp/mut/
python3 - "$@" <<'PY'
import sys
f,old,new=sys.argv[1],sys.argv[2],sys.argv[3]
p='/tmp/mut/'+f
s=open(p).read()
assert old in s, "pattern not found"
s=s.replace(old,new,1)
open(p,'w').write(s)
PY
shift 3
(cd /tmp/mut && go build ./... ) || { echo "MUTANT DOES NOT COMPILE"; exit 3; }
/verif/bin/govc check -repo /tmp/mut -work /tmp/mutwork -timeout 5000 "$@" 2>&1 | cut -c1-230 | head -12
rm -rf /tmp/mut /tmp/mutwork
