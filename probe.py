#!/usr/bin/env python3
# dev helper: probe.py <script.smt2> <obligation-substring> [extra-assert ...]  -> runs z3 (ematching) on that single obligation
import sys,re,subprocess
s=open(sys.argv[1]).read()
blocks=s.split('(push 1)')
res=blocks[0]
found=False
for b in blocks[1:]:
    body,rest=b.split('(pop 1)',1)
    m=re.search(r'OBL (\d+) (\S+)',body)
    if sys.argv[2] in m.group(2):
        for a in sys.argv[3:]:
            res+=a+"\n"
        res+='(push 1)'+body+'(pop 1)\n(exit)\n'
        found=True
        break
    res+=rest
open('/tmp/probe.smt2','w').write(res)
if not found: print("obligation not found"); sys.exit(1)
print(subprocess.run(['z3-new','-smt2','-t:10000','smt.mbqi=false','/tmp/probe.smt2'],capture_output=True,text=True).stdout.strip().split('\n')[-1])
