#!/bin/bash
# seedrun.sh <ID> [k...] : confirm the seeded changes /tmp/seed_<ID>/<k> in the scratch worktree
# /tmp/wt_<ID>, store them under /verif/seeded/<ID>-<k>/, and run the whole contract suite against
# each (applied to /repo, undone straight afterwards). Development helper, not a registered check.
export GOFLAGS=-mod=mod GOPROXY=off GOSUMDB=off GOTOOLCHAIN=local
id=$1; shift
ks="$@"; [ -z "$ks" ] && ks="1 2 3"
wt=/tmp/wt9_$id
for k in $ks; do
  src=/tmp/seed9_$id/$k
  [ -f $src/patch.diff ] || { echo "$id-$k: no patch"; continue; }
  dst=/verif/seeded/$id-$((k+24))
  mkdir -p $dst
  cp $src/patch.diff $src/meta.json $dst/ 2>/dev/null
  cp $src/demo_test.go $dst/demo_test.go.txt 2>/dev/null
  dir=$(python3 -c "import json;print(json.load(open('$src/meta.json')).get('demo_dir','.'))" 2>/dev/null)
  [ -z "$dir" ] && dir=$(head -1 $src/demo_test.go | sed 's/.*dir: *//')
  {
    echo "== confirmation in $wt (demo dir: $dir)"
    git -C $wt checkout -q -- . ; git -C $wt clean -fdq
    if git -C $wt apply $src/patch.diff; then
      (cd $wt && go build ./... 2>&1 | tail -3 && go test -vet=off -count=1 ./... 2>&1 | grep -v "no test files" | grep -c "^ok" | sed 's/^/suite with change: packages ok = /')
      (cd $wt && go test -vet=off -count=1 ./... 2>&1 | grep -E "^(FAIL|---)" | head -5 | sed 's/^/suite FAIL line: /')
      cp $src/demo_test.go $wt/$dir/zz_seed_demo_test.go
      (cd $wt/$dir && go test -vet=off -count=1 -run 'TestSeedDemo' . 2>&1 | tail -8 | sed 's/^/demo on changed code: /')
      git -C $wt checkout -q -- .
      (cd $wt/$dir && go test -vet=off -count=1 -run 'TestSeedDemo' . 2>&1 | tail -2 | sed 's/^/demo on clean code: /')
      rm -f $wt/$dir/zz_seed_demo_test.go
    else
      echo "PATCH DOES NOT APPLY in worktree"
    fi
  } > $dst/confirmation.txt 2>&1
  # run the checks against the change, in a scratch worktree at /repo's HEAD (SEED_IN_REPO=1: in /repo itself)
  if [ -n "$SEED_IN_REPO" ]; then
    tgt=/repo
    if [ -n "$(git -C /repo status --porcelain)" ]; then echo "/repo not clean; skipping check run"; continue; fi
  else
    tgt=/tmp/wt_seedrun9_$id
    [ -d $tgt ] || git -C /repo worktree add -q --detach $tgt HEAD
    git -C $tgt checkout -q -- . ; git -C $tgt checkout -q --detach $(git -C /repo rev-parse HEAD)
  fi
  # modular verification: a change inside a function body can only affect the obligations of functions of the
  # packages the patch touches (callers see the contract, not the body); a changed type breaks the load instead
  funcs=$(grep '^+++ b/' $src/patch.diff | sed 's#^+++ b/##' | xargs -n1 dirname | sort -u | sed 's#^#parsley/#; s#$#.#' | paste -sd, -)
  if git -C $tgt apply $src/patch.diff; then
    rm -rf /verif/work_seed9_$id
    /verif/bin/govc check --func "$funcs" --repo $tgt --work /verif/work_seed9_$id --known /verif/known_findings.json --props C01,C02,C03,C04,C06,C07,C08,C09,C10,C11,C12,C13,C14,C15 --replays /tmp/seed_replays9_$id --timeout ${SEED_TIMEOUT:-15000} > $dst/check_output.txt 2>&1
    echo "exit=$?" >> $dst/check_output.txt
    git -C $tgt checkout -q -- .
    rm -rf /verif/work_seed9_$id
  else
    echo "PATCH DOES NOT APPLY to $tgt" > $dst/check_output.txt
  fi
  echo "---- $id-$k: $(python3 -c "import json;print(json.load(open('$dst/meta.json')).get('summary',''))" 2>/dev/null)"
  grep -E "demo on|suite with|suite FAIL|NOT APPLY" $dst/confirmation.txt | grep -E "FAIL|ok |ok$|packages|NOT" | head -6
  grep -E "FAILED|ENGINE|STALE|^govc:|exit=" $dst/check_output.txt | cut -c1-260 | head -12; grep -o "^VIOLATION property=C[0-9]*" $dst/check_output.txt | sort | uniq -c | tr "\n" " "; echo
done
[ -z "$SEED_IN_REPO" ] && [ -d /tmp/wt_seedrun9_$id ] && git -C /repo worktree remove --force /tmp/wt_seedrun9_$id
